# source this before running property binaries by hand (same sanitizer options as ./check)
export ASAN_OPTIONS="detect_leaks=0:allocator_may_return_null=1:handle_abort=1:abort_on_error=0:exitcode=77:max_allocation_size_mb=2048:detect_stack_use_after_return=0"
export UBSAN_OPTIONS="print_stacktrace=1:halt_on_error=1"
