/* C19 instrument: libc functions that keep hidden static state (glibc: "MT-Unsafe race:...").
 * Two threads calling one of them without synchronisation interfere through that state even
 * though every zchunk object involved is private to its thread, and ThreadSanitizer cannot see
 * it because libc is not instrumented.  Each wrapper (linked with -Wl,--wrap=<fn>) performs one
 * ordinary, TSan-instrumented write to a per-function shadow word before calling the real
 * function, so concurrent unsynchronised calls from the code under test show up as a data race
 * report naming __wrap_<fn> and its caller.  Functions glibc documents as MT-Safe (strerror
 * since 2.32, getenv, rand, snprintf, ...) are deliberately not listed. */
#include <stddef.h>
#include <time.h>
#include <stdlib.h>
#include <string.h>
#include <locale.h>
#include <signal.h>
#include <unistd.h>

#define SHADOW(fn) static volatile unsigned long shadow_##fn; static inline void touch_##fn(void) { shadow_##fn = shadow_##fn + 1; }

SHADOW(strtok)
char *__real_strtok(char *s, const char *d);
char *__wrap_strtok(char *s, const char *d) { touch_strtok(); return __real_strtok(s, d); }

SHADOW(tmbuf)     /* localtime, gmtime share one static struct tm; asctime, ctime one static buffer */
struct tm *__real_localtime(const time_t *t);
struct tm *__wrap_localtime(const time_t *t) { touch_tmbuf(); return __real_localtime(t); }
struct tm *__real_gmtime(const time_t *t);
struct tm *__wrap_gmtime(const time_t *t) { touch_tmbuf(); return __real_gmtime(t); }
SHADOW(asctime)
char *__real_asctime(const struct tm *t);
char *__wrap_asctime(const struct tm *t) { touch_asctime(); return __real_asctime(t); }
char *__real_ctime(const time_t *t);
char *__wrap_ctime(const time_t *t) { touch_asctime(); touch_tmbuf(); return __real_ctime(t); }

SHADOW(strsignal)
char *__real_strsignal(int s);
char *__wrap_strsignal(int s) { touch_strsignal(); return __real_strsignal(s); }

SHADOW(env)       /* setenv/putenv/unsetenv modify the environment other threads read */
int __real_setenv(const char *n, const char *v, int o);
int __wrap_setenv(const char *n, const char *v, int o) { touch_env(); return __real_setenv(n, v, o); }
int __real_unsetenv(const char *n);
int __wrap_unsetenv(const char *n) { touch_env(); return __real_unsetenv(n); }
int __real_putenv(char *s);
int __wrap_putenv(char *s) { touch_env(); return __real_putenv(s); }

SHADOW(locale)
char *__real_setlocale(int c, const char *l);
char *__wrap_setlocale(int c, const char *l) { touch_locale(); return __real_setlocale(c, l); }

SHADOW(drand48)
double __real_drand48(void);
double __wrap_drand48(void) { touch_drand48(); return __real_drand48(); }
long __real_lrand48(void);
long __wrap_lrand48(void) { touch_drand48(); return __real_lrand48(); }
long __real_mrand48(void);
long __wrap_mrand48(void) { touch_drand48(); return __real_mrand48(); }
void __real_srand48(long s);
void __wrap_srand48(long s) { touch_drand48(); __real_srand48(s); }

SHADOW(tmpnam)
char *__real_tmpnam(char *s);
char *__wrap_tmpnam(char *s) { if (!s) touch_tmpnam(); return __real_tmpnam(s); }

SHADOW(l64a)
char *__real_l64a(long n);
char *__wrap_l64a(long n) { touch_l64a(); return __real_l64a(n); }

SHADOW(ecvt)
char *__real_ecvt(double n, int nd, int *dp, int *sg);
char *__wrap_ecvt(double n, int nd, int *dp, int *sg) { touch_ecvt(); return __real_ecvt(n, nd, dp, sg); }
char *__real_fcvt(double n, int nd, int *dp, int *sg);
char *__wrap_fcvt(double n, int nd, int *dp, int *sg) { touch_ecvt(); return __real_fcvt(n, nd, dp, sg); }

SHADOW(mbstate)   /* conversion functions with an internal shift state */
int __real_mblen(const char *s, size_t n);
int __wrap_mblen(const char *s, size_t n) { touch_mbstate(); return __real_mblen(s, n); }
int __real_mbtowc(wchar_t *w, const char *s, size_t n);
int __wrap_mbtowc(wchar_t *w, const char *s, size_t n) { touch_mbstate(); return __real_mbtowc(w, s, n); }
int __real_wctomb(char *s, wchar_t w);
int __wrap_wctomb(char *s, wchar_t w) { touch_mbstate(); return __real_wctomb(s, w); }

/* Descriptor lifetime.  Descriptor numbers are process-wide: when the code under test closes a
 * number that is not open (typically the second close of one descriptor), any other thread
 * that opened a file in between has been handed exactly that number and loses it.  The harmful
 * interleaving needs a window of microseconds; the EBADF result of the stray close is there in
 * every run, so it is counted here and judged by the property after each case. */
#include <errno.h>
#include <sched.h>
int zckv_fd_misuse;
int __real_close(int fd);
int __wrap_close(int fd) {
    int r = __real_close(fd);
    if (r < 0 && errno == EBADF) __atomic_fetch_add(&zckv_fd_misuse, 1, __ATOMIC_RELAXED);
    else sched_yield();          /* give other threads a chance to allocate the number just released */
    return r;
}

/* Process-wide state that a library call changes and later restores: signal dispositions, the working directory.  The calls
 * themselves are thread-safe, but two threads doing save / change / restore at once leave the process in a state neither would have
 * left alone (and one of them runs part of its work under the other's temporary setting).  Same shadow-word instrument. */
SHADOW(sigdisp)
int __real_sigaction(int sig, const struct sigaction *act, struct sigaction *old);
int __wrap_sigaction(int sig, const struct sigaction *act, struct sigaction *old) { if (act) touch_sigdisp(); return __real_sigaction(sig, act, old); }
typedef void (*sighandler_fn)(int);
sighandler_fn __real_signal(int sig, sighandler_fn h);
sighandler_fn __wrap_signal(int sig, sighandler_fn h) { touch_sigdisp(); return __real_signal(sig, h); }
SHADOW(cwd)
int __real_chdir(const char *p);
int __wrap_chdir(const char *p) { touch_cwd(); return __real_chdir(p); }
