/* I/O fault injection through -Wl,--wrap=read,--wrap=write,--wrap=lseek,--wrap=ftruncate.
 * One planned fault: the k-th call of one kind (on descriptors >= iof_min_fd) fails with an
 * errno or is short.  Used in-process by props/C12.cpp (globals set directly) and inside the
 * wrapped command-line tools (plan from the environment: VERIF_FAULT=kind:k:fault,
 * VERIF_FAULT_COUNTFILE=<path> receives "reads writes lseeks ftruncates hit" at exit). */
#define _GNU_SOURCE
#include <errno.h>
#include <stdio.h>
#include <stdlib.h>
#include <string.h>
#include <unistd.h>
#include <sys/types.h>

int iof_armed = 0, iof_kind = -1, iof_fault = 0, iof_hit = 0, iof_min_fd = 3, iof_inited = 0;
long iof_k = 0, iof_count[4] = {0, 0, 0, 0};
/* optional second planned fault (double faults) */
int iof_kind2 = -1, iof_fault2 = 0; long iof_k2 = 0;
static int iof_cur_fault = 0;
/* faults: 0 EIO, 1 ENOSPC, 2 EINTR, 3 short (half), 4 short (1 byte), 5 short (0 bytes) */

ssize_t __real_read(int fd, void *buf, size_t n);
ssize_t __real_write(int fd, const void *buf, size_t n);
off_t __real_lseek(int fd, off_t off, int whence);
int __real_ftruncate(int fd, off_t len);

static void iof_atexit(void) {
    const char *p = getenv("VERIF_FAULT_COUNTFILE");
    if(!p) return;
    FILE *f = fopen(p, "w");
    if(!f) return;
    fprintf(f, "%ld %ld %ld %ld %d\n", iof_count[0], iof_count[1], iof_count[2], iof_count[3], iof_hit);
    fclose(f);
}
static void iof_init(void) {
    if(iof_inited) return;
    iof_inited = 1;
    const char *p = getenv("VERIF_FAULT");
    if(!p) return;
    int kind = -1, fault = 0; long k = 0;
    if(sscanf(p, "%d:%ld:%d", &kind, &k, &fault) == 3) { iof_kind = kind; iof_k = k; iof_fault = fault; }
    iof_armed = 1;
    atexit(iof_atexit);
}
static int iof_errno(void) { return iof_cur_fault == 1 ? ENOSPC : iof_cur_fault == 2 ? EINTR : EIO; }
static int iof_due(int kind, int fd) {
    iof_init();
    if(!iof_armed || fd < iof_min_fd) return 0;
    long c = ++iof_count[kind];
    if(iof_kind == kind && c == iof_k) { iof_hit |= 1; iof_cur_fault = iof_fault; return 1; }
    if(iof_kind2 == kind && c == iof_k2) { iof_hit |= 2; iof_cur_fault = iof_fault2; return 1; }
    return 0;
}
ssize_t __wrap_read(int fd, void *buf, size_t n) {
    if(iof_due(0, fd)) {
        if(iof_cur_fault <= 2) { errno = iof_errno(); return -1; }
        size_t m = iof_cur_fault == 3 ? n / 2 : iof_cur_fault == 4 ? (n ? 1 : 0) : 0;
        if(m == 0) return 0;
        return __real_read(fd, buf, m);
    }
    return __real_read(fd, buf, n);
}
ssize_t __wrap_write(int fd, const void *buf, size_t n) {
    if(iof_due(1, fd)) {
        if(iof_cur_fault <= 2) { errno = iof_errno(); return -1; }
        size_t m = iof_cur_fault == 3 ? n / 2 : iof_cur_fault == 4 ? (n ? 1 : 0) : 0;
        if(m == 0) return 0;
        return __real_write(fd, buf, m);
    }
    return __real_write(fd, buf, n);
}
off_t __wrap_lseek(int fd, off_t off, int whence) {
    if(iof_due(2, fd)) { errno = EIO; return (off_t)-1; }
    return __real_lseek(fd, off, whence);
}
int __wrap_ftruncate(int fd, off_t len) {
    if(iof_due(3, fd)) { errno = EIO; return -1; }
    return __real_ftruncate(fd, len);
}
