/* I/O fault injection through -Wl,--wrap=read,--wrap=write,--wrap=lseek,--wrap=ftruncate.
 * One planned fault: the k-th call of one kind (on descriptors >= iof_min_fd) fails with an
 * errno or is short.  Used in-process by props/C12.cpp (globals set directly) and inside the
 * wrapped command-line tools (plan from the environment: VERIF_FAULT=kind:k:fault,
 * VERIF_FAULT_COUNTFILE=<path> receives "reads writes lseeks ftruncates hit" at exit). */
#define _GNU_SOURCE
#include <errno.h>
#include <stdio.h>
#include <stdlib.h>
#include <string.h>
#include <unistd.h>
#include <sys/types.h>
#include <sys/uio.h>
#include <sys/resource.h>
#include <signal.h>

int iof_armed = 0, iof_kind = -1, iof_fault = 0, iof_hit = 0, iof_min_fd = 3, iof_inited = 0;
long iof_k = 0, iof_count[4] = {0, 0, 0, 0};
/* optional second planned fault (double faults) */
int iof_kind2 = -1, iof_fault2 = 0; long iof_k2 = 0;
static int iof_cur_fault = 0;
/* faults: 0 EIO, 1 ENOSPC, 2 EINTR, 3 short (half), 4 short (1 byte), 5 short (0 bytes) */

ssize_t __real_read(int fd, void *buf, size_t n);
ssize_t __real_write(int fd, const void *buf, size_t n);
off_t __real_lseek(int fd, off_t off, int whence);
int __real_ftruncate(int fd, off_t len);

static void iof_atexit(void) {
    const char *p = getenv("VERIF_FAULT_COUNTFILE");
    if(!p) return;
    FILE *f = fopen(p, "w");
    if(!f) return;
    fprintf(f, "%ld %ld %ld %ld %d\n", iof_count[0], iof_count[1], iof_count[2], iof_count[3], iof_hit);
    fclose(f);
}
static void iof_init(void) {
    if(iof_inited) return;
    iof_inited = 1;
    const char *p = getenv("VERIF_FAULT");
    if(!p) return;
    int kind = -1, fault = 0; long k = 0;
    if(sscanf(p, "%d:%ld:%d", &kind, &k, &fault) == 3) { iof_kind = kind; iof_k = k; iof_fault = fault; }
    iof_armed = 1;
    atexit(iof_atexit);
}
static int iof_errno(void) { return iof_cur_fault == 1 ? ENOSPC : iof_cur_fault == 2 ? EINTR : EIO; }
static int iof_due(int kind, int fd) {
    iof_init();
    if(!iof_armed || fd < iof_min_fd) return 0;
    long c = ++iof_count[kind];
    if(iof_kind == kind && c == iof_k) { iof_hit |= 1; iof_cur_fault = iof_fault; return 1; }
    if(iof_kind2 == kind && c == iof_k2) { iof_hit |= 2; iof_cur_fault = iof_fault2; return 1; }
    return 0;
}
/* Fault 5 on a read is a premature END OF FILE: from that call on the descriptor behaves as if the file ended at the position the
 * call was made at (a read that returns 0 and is followed by successful reads further on cannot happen to a real file). */
static int iof_eof_fd = -1; static off_t iof_eof_pos = 0;
void iof_reset_eof(void) { iof_eof_fd = -1; }
ssize_t __wrap_read(int fd, void *buf, size_t n) {
    if(iof_eof_fd == fd && iof_armed) {
        off_t at = __real_lseek(fd, 0, SEEK_CUR);
        if(at >= iof_eof_pos) { iof_count[0]++; return 0; }
        if((off_t)n > iof_eof_pos - at) n = (size_t)(iof_eof_pos - at);
    }
    if(iof_due(0, fd)) {
        if(iof_cur_fault == 5) { iof_eof_fd = fd; iof_eof_pos = __real_lseek(fd, 0, SEEK_CUR); return 0; }
        if(iof_cur_fault <= 2) { errno = iof_errno(); return -1; }
        size_t m = iof_cur_fault == 3 ? n / 2 : iof_cur_fault == 4 ? (n ? 1 : 0) : 0;
        if(m == 0) return __real_read(fd, buf, n);      /* a 1-byte read cannot be short; only fault 5 (end of file) returns 0 */
        return __real_read(fd, buf, m);
    }
    return __real_read(fd, buf, n);
}
ssize_t __wrap_write(int fd, const void *buf, size_t n) {
    if(iof_due(1, fd)) {
        if(iof_cur_fault <= 2) { errno = iof_errno(); return -1; }
        size_t m = iof_cur_fault == 3 ? n / 2 : iof_cur_fault == 4 ? (n ? 1 : 0) : 0;
        if(m == 0) return 0;
        return __real_write(fd, buf, m);
    }
    return __real_write(fd, buf, n);
}
off_t __wrap_lseek(int fd, off_t off, int whence) {
    if(iof_due(2, fd)) { errno = EIO; return (off_t)-1; }
    return __real_lseek(fd, off, whence);
}
int __wrap_ftruncate(int fd, off_t len) {
    if(iof_due(3, fd)) { errno = EIO; return -1; }
    return __real_ftruncate(fd, len);
}

/* The other system calls that move file data.  The library does not use them today; they are wrapped so that a fault plan keeps
 * reaching the transfer if it ever does (positioned / vectored / in-kernel copies count as reads or writes of the same plan). */
ssize_t __real_pread(int fd, void *buf, size_t n, off_t off);
ssize_t __real_pread64(int fd, void *buf, size_t n, off_t off);
ssize_t __real_pwrite(int fd, const void *buf, size_t n, off_t off);
ssize_t __real_pwrite64(int fd, const void *buf, size_t n, off_t off);
ssize_t __real_readv(int fd, const struct iovec *iov, int cnt);
ssize_t __real_writev(int fd, const struct iovec *iov, int cnt);
ssize_t __real_copy_file_range(int in, off_t *oin, int out, off_t *oout, size_t n, unsigned flags);
ssize_t __real_sendfile(int out, int in, off_t *off, size_t n);
ssize_t __real_sendfile64(int out, int in, off_t *off, size_t n);
off_t __real_lseek64(int fd, off_t off, int whence);
int __real_ftruncate64(int fd, off_t len);
static size_t iof_short(size_t n) { return iof_cur_fault == 3 ? n / 2 : iof_cur_fault == 4 ? (n ? 1 : 0) : 0; }
#define IOF_RD(call_short, call_full) if(iof_due(0, fd)) { if(iof_cur_fault <= 2) { errno = iof_errno(); return -1; } size_t m = iof_short(n); if(m == 0) return 0; return call_short; } return call_full
#define IOF_WR(fdx, call_short, call_full) if(iof_due(1, fdx)) { if(iof_cur_fault <= 2) { errno = iof_errno(); return -1; } size_t m = iof_short(n); if(m == 0) return 0; return call_short; } return call_full
ssize_t __wrap_pread(int fd, void *buf, size_t n, off_t off) { IOF_RD(__real_pread(fd, buf, m, off), __real_pread(fd, buf, n, off)); }
ssize_t __wrap_pread64(int fd, void *buf, size_t n, off_t off) { IOF_RD(__real_pread64(fd, buf, m, off), __real_pread64(fd, buf, n, off)); }
ssize_t __wrap_pwrite(int fd, const void *buf, size_t n, off_t off) { IOF_WR(fd, __real_pwrite(fd, buf, m, off), __real_pwrite(fd, buf, n, off)); }
ssize_t __wrap_pwrite64(int fd, const void *buf, size_t n, off_t off) { IOF_WR(fd, __real_pwrite64(fd, buf, m, off), __real_pwrite64(fd, buf, n, off)); }
ssize_t __wrap_readv(int fd, const struct iovec *iov, int cnt) {
    size_t n = cnt > 0 ? iov[0].iov_len : 0;
    if(iof_due(0, fd)) { if(iof_cur_fault <= 2) { errno = iof_errno(); return -1; } size_t m = iof_short(n); if(m == 0) return 0; struct iovec one = { iov[0].iov_base, m }; return __real_readv(fd, &one, 1); }
    return __real_readv(fd, iov, cnt);
}
ssize_t __wrap_writev(int fd, const struct iovec *iov, int cnt) {
    size_t n = cnt > 0 ? iov[0].iov_len : 0;
    if(iof_due(1, fd)) { if(iof_cur_fault <= 2) { errno = iof_errno(); return -1; } size_t m = iof_short(n); if(m == 0) return 0; struct iovec one = { iov[0].iov_base, m }; return __real_writev(fd, &one, 1); }
    return __real_writev(fd, iov, cnt);
}
ssize_t __wrap_copy_file_range(int in, off_t *oin, int out, off_t *oout, size_t n, unsigned flags) { IOF_WR(out, __real_copy_file_range(in, oin, out, oout, m, flags), __real_copy_file_range(in, oin, out, oout, n, flags)); }
ssize_t __wrap_sendfile(int out, int in, off_t *off, size_t n) { IOF_WR(out, __real_sendfile(out, in, off, m), __real_sendfile(out, in, off, n)); }
ssize_t __wrap_sendfile64(int out, int in, off_t *off, size_t n) { IOF_WR(out, __real_sendfile64(out, in, off, m), __real_sendfile64(out, in, off, n)); }
off_t __wrap_lseek64(int fd, off_t off, int whence) { if(iof_due(2, fd)) { errno = EIO; return (off_t)-1; } return __real_lseek64(fd, off, whence); }
int __wrap_ftruncate64(int fd, off_t len) { if(iof_due(3, fd)) { errno = EIO; return -1; } return __real_ftruncate64(fd, len); }

/* A second, syscall-independent fault mechanism: a file-size limit (RLIMIT_FSIZE, SIGXFSZ ignored).  Whatever call extends a file
 * past the limit - write, pwrite, writev, copy_file_range, sendfile, ftruncate - is cut short at the limit and then fails with EFBIG,
 * exactly what a full disk or a quota does.  iof_fsize_limit(-1) removes the limit again.  In the tools: VERIF_FSIZE_LIMIT=<bytes>. */
void iof_fsize_limit(long bytes) {
    struct rlimit rl;
    signal(SIGXFSZ, SIG_IGN);
    if(getrlimit(RLIMIT_FSIZE, &rl) != 0) return;
    rl.rlim_cur = bytes < 0 ? rl.rlim_max : (rlim_t)bytes;
    setrlimit(RLIMIT_FSIZE, &rl);
}
__attribute__((constructor)) static void iof_env_fsize(void) {
    const char *p = getenv("VERIF_FSIZE_LIMIT");
    if(p && *p) iof_fsize_limit(atol(p));
}
