// Thin C++ helpers around the library under test (public API + zck_private.h for state peeks).
#pragma once
#include <cstdint>
#include <cstring>
#include <string>
#include <vector>
#include <unistd.h>
#include <fcntl.h>
#include <sys/mman.h>
#include <sys/stat.h>
extern "C" {
#include <zck.h>
#include "zck_private.h"
}
#undef set_error
#undef set_fatal_error
#undef zck_log

namespace lib {
typedef std::vector<uint8_t> Bytes;

static inline int mkfd(const Bytes &b, const char *name = "zckv") {
    int fd = memfd_create(name, 0);
    if (fd < 0) { perror("memfd_create"); abort(); }
    size_t off = 0; while (off < b.size()) { ssize_t w = write(fd, b.data() + off, b.size() - off); if (w <= 0) { perror("write memfd"); abort(); } off += w; }
    lseek(fd, 0, SEEK_SET); return fd;
}
static inline Bytes fd_bytes(int fd) {
    struct stat st; fstat(fd, &st); Bytes b(st.st_size);
    size_t off = 0; while (off < b.size()) { ssize_t r = pread(fd, b.data() + off, b.size() - off, off); if (r <= 0) break; off += r; }
    b.resize(off); return b;
}

struct WCfg {
    int comp = ZCK_COMP_ZSTD; int level = -1;              // -1: leave default
    Bytes dict;
    bool manual = false;
    long chunk_max = -1, chunk_min = -1;                   // -1: leave default; max is set before min
    int chunk_hash = -1, full_hash = -1;                   // -1: leave default
    bool uncomp = false;
    bool uncomp_first = false;                             // set ZCK_UNCOMP_HEADER before / after the chunk hash
    std::string str() const {
        std::string s = std::string("comp=") + (comp == ZCK_COMP_ZSTD ? "zstd" : "none") + " level=" + std::to_string(level) +
            " dict=" + std::to_string(dict.size()) + (manual ? " manual" : " auto") + " max=" + std::to_string(chunk_max) +
            " min=" + std::to_string(chunk_min) + " chunkhash=" + std::to_string(chunk_hash) + " fullhash=" + std::to_string(full_hash) +
            (uncomp ? (uncomp_first ? " uncomp(first)" : " uncomp") : "");
        return s;
    }
};

struct WOp { bool end; size_t n; };                         // end_chunk, or write(n)

struct WResult {
    bool cfg_ok = false; std::string cfg_err;
    bool ok = false; std::string err;                       // all writes + close succeeded
    Bytes file;
    long chunk_count = -1;
};

// Apply the configuration in the documented order.  Returns false if a setter refused.
static inline bool apply_cfg(zckCtx *z, const WCfg &c, std::string &err) {
    auto io = [&](zck_ioption o, ssize_t v, const char *n) { if (!zck_set_ioption(z, o, v)) { err = std::string(n) + ": " + zck_get_error(z); return false; } return true; };
    if (!io(ZCK_COMP_TYPE, c.comp, "comp")) return false;
    if (c.level >= 0 && c.comp == ZCK_COMP_ZSTD && !io(ZCK_ZSTD_COMP_LEVEL, c.level, "level")) return false;
    if (!c.dict.empty() && !zck_set_soption(z, ZCK_COMP_DICT, (const char *)c.dict.data(), c.dict.size())) { err = std::string("dict: ") + zck_get_error(z); return false; }
    if (c.manual && !io(ZCK_MANUAL_CHUNK, 1, "manual")) return false;
    if (c.chunk_max >= 0 && !io(ZCK_CHUNK_MAX, c.chunk_max, "max")) return false;
    if (c.chunk_min >= 0 && !io(ZCK_CHUNK_MIN, c.chunk_min, "min")) return false;
    if (c.full_hash >= 0 && !io(ZCK_HASH_FULL_TYPE, c.full_hash, "fullhash")) return false;
    if (c.uncomp && c.uncomp_first && !io(ZCK_UNCOMP_HEADER, 1, "uncomp")) return false;
    if (c.chunk_hash >= 0 && !io(ZCK_HASH_CHUNK_TYPE, c.chunk_hash, "chunkhash")) return false;
    if (c.uncomp && !c.uncomp_first && !io(ZCK_UNCOMP_HEADER, 1, "uncomp")) return false;
    return true;
}

static inline WResult write_file(const WCfg &c, const Bytes &content, const std::vector<WOp> &ops) {
    WResult r; int fd = memfd_create("zckw", 0);
    zckCtx *z = zck_create();
    if (!zck_init_write(z, fd)) { r.cfg_err = std::string("init_write: ") + zck_get_error(z); zck_free(&z); close(fd); return r; }
    if (!apply_cfg(z, c, r.cfg_err)) { zck_free(&z); close(fd); return r; }
    r.cfg_ok = true;
    size_t off = 0; bool good = true;
    for (auto &op : ops) {
        if (op.end) { if (zck_end_chunk(z) < 0) { r.err = std::string("end_chunk: ") + zck_get_error(z); good = false; break; } }
        else {
            size_t n = std::min(op.n, content.size() - off);
            ssize_t w = zck_write(z, (const char *)content.data() + off, n);
            if (w != (ssize_t)n) { r.err = "write(" + std::to_string(n) + ") returned " + std::to_string(w) + ": " + zck_get_error(z); good = false; break; }
            off += n;
        }
    }
    if (good && off < content.size()) {
        ssize_t w = zck_write(z, (const char *)content.data() + off, content.size() - off);
        if (w != (ssize_t)(content.size() - off)) { r.err = std::string("final write: ") + zck_get_error(z); good = false; }
    }
    if (good) { if (!zck_close(z)) { r.err = std::string("close: ") + zck_get_error(z); good = false; } }
    if (good) { r.chunk_count = zck_get_chunk_count(z); r.file = fd_bytes(fd); }
    r.ok = good;
    zck_free(&z); close(fd); return r;
}

// Pins for header validation (type, digest as hex string, total header length); unset members are not pinned.
struct Pins { int type = -1; std::string digest_hex; long length = -1; bool any() const { return type >= 0 || !digest_hex.empty() || length >= 0; } };
static inline bool open_pinned(zckCtx *z, int fd, const Pins &p) {
    if (!zck_init_adv_read(z, fd)) return false;
    if (p.type >= 0 && !zck_set_ioption(z, ZCK_VAL_HEADER_HASH_TYPE, p.type)) return false;
    if (!p.digest_hex.empty() && !zck_set_soption(z, ZCK_VAL_HEADER_DIGEST, p.digest_hex.data(), p.digest_hex.size())) return false;
    if (p.length >= 0 && !zck_set_ioption(z, ZCK_VAL_HEADER_LENGTH, p.length)) return false;
    return zck_read_lead(z) && zck_read_header(z);
}
static inline std::string hex_of(const Bytes &b) { static const char *d = "0123456789abcdef"; std::string s; for (uint8_t x : b) { s += d[x >> 4]; s += d[x & 15]; } return s; }

struct RResult {
    bool open_ok = false, read_ok = false, close_ok = false; std::string err; Bytes data;
    bool all_ok() const { return open_ok && read_ok && close_ok; }
};
// Open, read to end of stream with the cyclic buffer-size list, close.
static inline RResult read_file(const Bytes &file, const std::vector<size_t> &sizes, size_t cap = (size_t)1 << 30, const Pins *pins = nullptr) {
    RResult r; int fd = mkfd(file);
    zckCtx *z = zck_create();
    if (!(pins && pins->any() ? open_pinned(z, fd, *pins) : zck_init_read(z, fd))) { r.err = std::string("open: ") + zck_get_error(z); zck_free(&z); close(fd); return r; }
    r.open_ok = true; r.read_ok = true;
    std::vector<char> buf; size_t k = 0;
    for (;;) {
        size_t n = sizes.empty() ? 32768 : sizes[k++ % sizes.size()]; if (n == 0) n = 1;
        if (buf.size() < n) buf.resize(n);
        ssize_t got = zck_read(z, buf.data(), n);
        if (got < 0) { r.read_ok = false; r.err = std::string("read: ") + zck_get_error(z); break; }
        if (got == 0) break;
        r.data.insert(r.data.end(), buf.data(), buf.data() + got);
        if (r.data.size() > cap) { r.read_ok = false; r.err = "output cap exceeded"; break; }
    }
    if (r.read_ok) { r.close_ok = zck_close(z); if (!r.close_ok) r.err = std::string("close: ") + zck_get_error(z); }
    zck_free(&z); close(fd); return r;
}

struct Quiet { Quiet() { zck_set_log_level(ZCK_LOG_NONE); } };

} // namespace lib
