// Running the ASan builds of the command-line tools from inside a property (scratch directory under /dev/shm,
// CPU limit instead of a wall-clock timeout, stdout/stderr captured).
#pragma once
#include <string>
#include <vector>
#include <cstdio>
#include <cstring>
#include <unistd.h>
#include <fcntl.h>
#include <signal.h>
#include <sys/mman.h>
#include <sys/stat.h>
#include <sys/time.h>
#include <sys/resource.h>
#include <sys/wait.h>
#include "lib/zcklib.hpp"

namespace tools {
typedef std::vector<uint8_t> Bytes;

struct Run {
    int exit_code = -1;          // exit status, or -1 when the tool did not exit normally
    int signal = 0;              // terminating signal, if any
    std::string out, err;
    bool sanitizer() const { return exit_code == 77 || err.find("ERROR: AddressSanitizer") != std::string::npos || err.find("runtime error:") != std::string::npos; }
    bool abnormal() const { return exit_code < 0 || exit_code == 126 || sanitizer(); }
};

struct Dir {
    std::string path;
    explicit Dir(const char *tag) { char d[128]; snprintf(d, sizeof d, "/dev/shm/%s-%d", tag, (int)getpid()); path = d; wipe(); mkdir(d, 0700); }
    ~Dir() { wipe(); }
    void wipe() { std::string rm = "rm -rf " + path; int rc = system(rm.c_str()); (void)rc; }
    void put(const std::string &name, const Bytes &b) { FILE *f = fopen((path + "/" + name).c_str(), "wb"); if (f) { if (!b.empty()) fwrite(b.data(), 1, b.size(), f); fclose(f); } }
    bool exists(const std::string &name) { struct stat st; return stat((path + "/" + name).c_str(), &st) == 0; }
    Bytes get(const std::string &name) { Bytes b; FILE *f = fopen((path + "/" + name).c_str(), "rb"); if (!f) return b; uint8_t buf[65536]; size_t n; while ((n = fread(buf, 1, sizeof buf, f)) > 0) b.insert(b.end(), buf, buf + n); fclose(f); return b; }
};

// tool = absolute or VERIF_BUILD-relative path; args without argv[0]
static inline Run run(const std::string &tool, const std::vector<std::string> &args, const std::string &cwd, int cpu_seconds = 30) {
    Run r; int ofd = memfd_create("out", 0), efd = memfd_create("err", 0);
    pid_t pid = fork();
    if (pid == 0) {
        struct itimerval it; memset(&it, 0, sizeof it); setitimer(ITIMER_PROF, &it, nullptr); setitimer(ITIMER_VIRTUAL, &it, nullptr);
        struct rlimit rl = {(rlim_t)cpu_seconds, (rlim_t)cpu_seconds + 2}; setrlimit(RLIMIT_CPU, &rl);
        if (chdir(cwd.c_str()) != 0) _exit(125);
        int dn = open("/dev/null", O_RDWR); dup2(dn, 0); dup2(ofd, 1); dup2(efd, 2);
        std::vector<char *> av; av.push_back((char *)tool.c_str()); for (auto &a : args) av.push_back((char *)a.c_str()); av.push_back(nullptr);
        execv(tool.c_str(), av.data()); _exit(126);
    }
    int st = 0; waitpid(pid, &st, 0);
    if (WIFEXITED(st)) r.exit_code = WEXITSTATUS(st); else if (WIFSIGNALED(st)) r.signal = WTERMSIG(st);
    Bytes o = lib::fd_bytes(ofd), e = lib::fd_bytes(efd); close(ofd); close(efd);
    r.out.assign((const char *)o.data(), o.size()); r.err.assign((const char *)e.data(), e.size());
    return r;
}
static inline std::string tool_path(const char *name) { const char *b = getenv("VERIF_BUILD"); if (!b) return ""; return std::string(b) + "/asan/tools/" + name; }
} // namespace tools
