// C02  No silent corruption: a successful read implies verified, correct content.
//
// Generated: a valid file (library- and reference-written, all hash types / flags / dictionary,
// many small manual chunks) -> one or several alterations:
//   raw        bit flip, substitution, insertion, deletion, truncation at any length, zeroing,
//              trailing garbage, swap of two chunk bodies;
//   structural (header re-emitted and re-sealed) declared stored/uncompressed length +-k or a
//              boundary value, digest bytes, chunk count, data digest, flags, compression type,
//              index entries swapped/dropped/duplicated, integer encodings, file identifier switched to the
//              detached-header one with the body left in place; optionally the data
//              checksum is recomputed too, so that only the per-chunk checks stand in the way
// -> a cyclic list of read buffer sizes.
// Oracle: open / read to end of stream / close through the library.  If ALL calls report success,
// let R be the independent reference's content verdict on the altered bytes (header checksum,
// every chunk digest, whole-data digest, decoded size == declared size).  R accepts -> the bytes
// returned must equal R's content.  R rejects -> the bytes returned must equal the original
// content (the property's "or returns the original content" clause; this also keeps any
// strictness of the reference from raising an alarm).  Everything else is silent corruption.
// The same oracle is applied to `unzck` (exit 0 => output file as above) for a share of cases.
#include "pbt/pbt.hpp"
#include "ref/zckref.hpp"
#include "ref/fields.hpp"
#include "lib/zcklib.hpp"
#include "gen/gens.hpp"
#include "gen/mutate.hpp"
#include "lib/tools.hpp"
#include <sys/stat.h>

using pbt::Ctx; using pbt::Bytes;

static std::string structural(Ctx &c, const gen::ZFile &z, Bytes &out, bool keep_stored_digest) {
    ref::Header h = z.h; std::string d; size_t n = h.entries.size();
    ref::EmitOpts eo; if (keep_stored_digest) { eo.stored_digest = z.h.header_digest; d += "(header NOT re-sealed: original stored digest kept) "; } bool refresh_data_digest = c.chance(1, 3); Bytes body(z.file.begin() + z.h.total_size, z.file.end());
    size_t nm = 1 + c.draw(1);
    for (size_t m = 0; m < nm; m++) {
        size_t i = c.pick(n); ref::Entry &e = h.entries[i];
        switch (c.draw(12)) {
        case 0: { int64_t k = (int64_t)c.draw(200) - 100; if (k >= 0) k++; e.len = (uint64_t)((int64_t)e.len + k); d += "e" + std::to_string(i) + ".len+=" + std::to_string(k) + "; "; break; }
        case 1: { int64_t k = (int64_t)c.draw(20) - 10; if (k >= 0) k++; e.comp_len = (uint64_t)((int64_t)e.comp_len + k); d += "e" + std::to_string(i) + ".comp_len+=" + std::to_string(k) + "; "; break; }
        case 2: { e.len = (uint64_t)gen::boundary_value(c) & ((1ull << 27) - 1); d += "e" + std::to_string(i) + ".len:=" + std::to_string(e.len) + "; "; break; }
        case 3: { if (e.digest.empty()) break; e.digest[c.pick(e.digest.size())] ^= (uint8_t)(1 + c.draw(254)); d += "e" + std::to_string(i) + ".digest changed; "; break; }
        case 4: { h.count = c.boolean() ? h.count + 1 : (h.count ? h.count - 1 : 0); d += "count:=" + std::to_string(h.count) + "; "; break; }
        case 5: { if (h.data_digest.empty()) break; h.data_digest[c.pick(h.data_digest.size())] ^= (uint8_t)(1 + c.draw(254)); refresh_data_digest = false; d += "data digest changed; "; break; }
        case 6: { h.flags ^= 4; if (h.flags & 4) for (auto &x : h.entries) x.udigest = x.digest; d += "flag uncompressed-source toggled; "; break; }
        case 7: { h.comp_type = h.comp_type == 2 ? 0 : 2; d += "compression type:=" + std::to_string(h.comp_type) + "; "; break; }
        case 8: { if (n < 3) break; size_t a = 1 + c.pick(n - 1), b = 1 + c.pick(n - 1); std::swap(h.entries[a], h.entries[b]); d += "index entries " + std::to_string(a) + "," + std::to_string(b) + " swapped; "; break; }
        case 9: { if (n < 2) break; size_t a = 1 + c.pick(n - 1); if (c.boolean()) { h.entries.erase(h.entries.begin() + a); h.count = h.entries.size(); d += "entry " + std::to_string(a) + " dropped; "; }
                  else { h.entries.insert(h.entries.begin() + a, h.entries[a]); h.count = h.entries.size(); d += "entry " + std::to_string(a) + " duplicated; "; } n = h.entries.size(); break; }
        case 10: { size_t n0 = z.h.entries.size(); if (n0 < 3 || body.size() != z.file.size() - z.h.total_size) break; size_t a = 1 + c.pick(n0 - 1), b = 1 + c.pick(n0 - 1); if (a == b) break;   // swap two chunk BODIES (and nothing else)
                   std::vector<Bytes> st; size_t off = 0; for (auto &x : z.h.entries) { st.push_back(Bytes(body.begin() + off, body.begin() + off + x.comp_len)); off += x.comp_len; }
                   std::swap(st[a], st[b]); body.clear(); for (auto &x : st) body.insert(body.end(), x.begin(), x.end()); d += "chunk bodies " + std::to_string(a) + "," + std::to_string(b) + " swapped; "; break; }
        case 12: { h.detached = !h.detached; d += "file identifier switched to the detached-header one (ZHR1) with the body left in place; "; break; }   // the header checksum is defined over ZCK1, so it stays valid
        default: { eo.pad_lens = 1 + c.draw(9); d += "entry lengths encoded in " + std::to_string(eo.pad_lens) + " bytes; "; break; }
        }
    }
    if (refresh_data_digest && !(h.flags & 4)) { h.data_digest = ref::digest((int)h.hash_type, body); d += "(data digest recomputed) "; }
    out = ref::emit_header(h, eo); out.insert(out.end(), body.begin(), body.end());
    return d;
}

static std::string run_unzck(const std::string &tools, const Bytes &file, Bytes &out, int *exit_code);
// the verified dictionary (chunk 0) of a file whose header the reference accepts
static bool dict_of(const Bytes &m, const ref::Header &h, Bytes &out) {
    const ref::Entry &e = h.entries[0]; size_t off = h.total_size; if (m.size() < off || m.size() - off < e.comp_len) return false;
    if (e.comp_len == 0) { out.clear(); return e.len == 0; }
    if (ref::digest((int)h.chunk_hash_type, m.data() + off, (size_t)e.comp_len) != e.digest) return false;
    if (h.comp_type == ref::COMP_NONE) { if (e.len != e.comp_len) return false; out.assign(m.begin() + off, m.begin() + off + e.comp_len); return true; }
    std::string why; return ref::zstd_dec(m.data() + off, (size_t)e.comp_len, nullptr, e.len, out, why) && out.size() == e.len;
}

static void prop(Ctx &c) {
    gen::ZFileOpts o; o.max_chunks = c.tier ? 12 : 8; o.max_chunk = c.tier ? 20000 : 4000; o.allow_empty = false; o.big_rate = 10; o.big_huge = c.tier != 0;
    gen::ZFile z = gen::zfile(c, o);
    Bytes m; std::string md; bool structural_mut = c.boolean();
    // a reader that pins the authentic header digest (as package managers do) must be at least as strict
    bool pinned = c.rarely(3); lib::Pins pins; if (pinned) { pins.type = (int)z.h.hash_type; pins.digest_hex = lib::hex_of(z.h.header_digest); if (c.boolean()) pins.length = (long)z.h.total_size; }
    if (structural_mut) md = structural(c, z, m, pinned && c.chance(2, 3));
    else { m = z.file; size_t nm = 1 + c.draw(1); for (size_t i = 0; i < nm; i++) md += gen::mutate_raw(c, m, z.h.total_size) + "; "; if (c.rarely(4)) { ref::reseal(m); md += "(header re-sealed) "; }
           if (c.gver >= 2 && c.rarely(6) && m.size() >= 5 && memcmp(m.data(), "\0ZCK1", 5) == 0) { memcpy(m.data(), "\0ZHR1", 5); md += "file identifier switched to ZHR1; "; } }
    std::vector<size_t> rs = gen::rhistory(c);
    if (z.D.size() > 30000) for (auto &x : rs) if (x < 512) x += 512;      // tiny reads of a large file are quadratic in the library
    c.desc << z.desc << " alterations{" << md << "} reads=" << gen::sizes_str(rs) << (pinned ? " PINNED-OPEN" : "");
    if (m == z.file) { c.label("unchanged"); }
    // reference verdict
    ref::ParseResult pr = ref::parse(m); ref::Decoded dec; if (pr.ok) dec = ref::decode(m, pr.h);
    bool R = pr.ok && dec.ok;
    c.label(structural_mut ? "structural" : "raw"); c.label(pr.h.checksum_ok ? "past-header-gate" : "stopped-at-header-gate"); c.label(R ? "ref-accepts" : "ref-rejects");
    c.checkpoint();
    if (pinned) { md += "[opened with the original header digest pinned] "; c.label("pinned-open"); }
    lib::RResult rr = lib::read_file(m, rs, (size_t)64 << 20, pinned ? &pins : nullptr);
    if (rr.open_ok && m != z.file) c.nontrivial(pbt::fnv1a(m.data(), m.size()));
    c.label(rr.all_ok() ? "lib-success" : !rr.open_ok ? "lib-open-fails" : !rr.read_ok ? "lib-read-fails" : "lib-close-fails");
    // A file that carries the detached-header identifier but still has its body: the specification gives such a file no content
    // (the reference rejects it), the library reads it like a full file.  Either reading is acceptable here, so the content the
    // reference obtains with the identifier read as ZCK1 is allowed besides the original content.
    bool alt_ok = false; Bytes alt_content;
    if (!R && pr.h.checksum_ok && pr.h.detached && m.size() >= 5) { Bytes alt = m; memcpy(alt.data(), "\0ZCK1", 5); ref::ParseResult p2 = ref::parse(alt); if (p2.ok) { ref::Decoded d2 = ref::decode(alt, p2.h); if (d2.ok) { alt_ok = true; alt_content = d2.content; c.label("detached-id-with-body"); } } }
    if (rr.all_ok()) {
        const Bytes &want = R ? dec.content : (alt_ok && rr.data == alt_content) ? alt_content : z.D;
        if (rr.data != want) {
            size_t i = 0; while (i < rr.data.size() && i < want.size() && rr.data[i] == want[i]) i++;
            c.fail(R ? "differs-from-reference" : "success-on-rejected-file",
                   std::string("open, read and close all succeeded and returned ") + std::to_string(rr.data.size()) + " bytes; " +
                   (R ? "the reference decodes the altered file to " : "the reference rejects the altered file (" + (pr.ok ? dec.reason : pr.reason) + ") and the original content has ") +
                   std::to_string(want.size()) + " bytes; first difference at " + std::to_string(i));
        }
        if (R && !structural_mut) c.label("alteration-harmless");
    }
    // unzck on the same bytes
    const char *bdir = getenv("VERIF_BUILD");
    if (bdir && c.gver >= 4 && c.draw(c.tier ? 8 : 24) == 0) {
        // unzck's other outputs from the same altered bytes: --header (detached header = header + dictionary chunk, identifier ZHR1),
        // --dict (the dictionary), -c (content on standard output).  Exit 0 => the output is what the altered file really holds
        // (where the reference can derive it) or what the original holds; never something else, never a shortened copy.
        uint64_t mode = c.draw(2); tools::Dir d("c02t"); d.put("f.zck", m);
        tools::Run r = tools::run(tools::tool_path("unzck"), mode == 0 ? std::vector<std::string>{"--header", "f.zck"} : mode == 1 ? std::vector<std::string>{"--dict", "f.zck"} : std::vector<std::string>{"-c", "f.zck"}, d.path);
        const char *mn = mode == 0 ? "unzck --header" : mode == 1 ? "unzck --dict" : "unzck -c"; c.label(std::string(mn) + (r.exit_code == 0 ? ":exit0" : ":fails"));
        if (r.exit_code == 126) c.fail("tool-missing", "cannot run unzck");
        if (r.abnormal()) c.label("unzck-abnormal-termination(C03's business)");
        else if (r.exit_code == 0) {
            auto zhr = [](const Bytes &f, const ref::Header &h, Bytes &out) { size_t need = h.total_size + (h.entries.empty() ? 0 : (size_t)h.entries[0].comp_len); if (f.size() < need) return false; out.assign(f.begin(), f.begin() + need); memcpy(out.data(), "\0ZHR1", 5); return true; };
            if (mode == 0) { Bytes out = d.get("f.zhr"), w1, w2; bool h1 = pr.ok && pr.h.checksum_ok && zhr(m, pr.h, w1), h2 = zhr(z.file, z.h, w2);
                if (!(h1 && out == w1) && !(h2 && out == w2)) c.fail("unzck-header-wrong", "unzck --header exited 0 and wrote " + std::to_string(out.size()) + " bytes; header + dictionary chunk of the " + (h1 ? "altered file are " + std::to_string(w1.size()) : "original file are " + std::to_string(w2.size())) + " bytes" + (h1 ? "" : " (the altered file does not hold a complete, checksum-correct header + dictionary)")); }
            else if (mode == 1) { Bytes out = d.get("f.zdict"); bool ok = out == z.plain[0] || (R && out == dec.dict);
                if (!ok && pr.ok && pr.h.checksum_ok && !pr.h.entries.empty()) { Bytes dd; if (dict_of(m, pr.h, dd) && out == dd) ok = true; }
                if (!ok) c.fail("unzck-dict-wrong", "unzck --dict exited 0 and wrote " + std::to_string(out.size()) + " bytes that are neither the original dictionary (" + std::to_string(z.plain[0].size()) + " bytes) nor the verified dictionary of the altered file"); }
            else { Bytes out(r.out.begin(), r.out.end()); const Bytes &want = R ? dec.content : (alt_ok && out == alt_content) ? alt_content : z.D;
                if (out != want) c.fail(R ? "unzck-differs-from-reference" : "unzck-success-on-rejected-file", "unzck -c exited 0 and wrote " + std::to_string(out.size()) + " bytes to standard output, expected " + std::to_string(want.size())); }
        }
    }
    if (bdir && c.draw(c.tier ? 3 : 7) == 0) {
        Bytes out; int ec = -1; std::string e = run_unzck(std::string(bdir) + "/asan/tools/", m, out, &ec);
        c.label(ec == 0 ? "unzck-exit0" : "unzck-fails");
        if (!e.empty()) { c.label("unzck-abnormal-termination(C03's business)"); ec = -1; }
        if (ec == 0) { const Bytes &want = R ? dec.content : (alt_ok && out == alt_content) ? alt_content : z.D;
            if (out != want) c.fail(R ? "unzck-differs-from-reference" : "unzck-success-on-rejected-file", "unzck exited 0 and wrote " + std::to_string(out.size()) + " bytes, expected " + std::to_string(want.size()) + (R ? " (reference decoding)" : " (original content; the reference rejects the file: " + (pr.ok ? dec.reason : pr.reason) + ")")); }
    }
}

static std::string run_unzck(const std::string &tools, const Bytes &file, Bytes &out, int *exit_code) {
    char dir[128]; snprintf(dir, sizeof dir, "/dev/shm/c02-%d", (int)getpid()); mkdir(dir, 0700);
    std::string in = std::string(dir) + "/f.zck", outp = std::string(dir) + "/f";
    { FILE *f = fopen(in.c_str(), "wb"); if (f) { fwrite(file.data(), 1, file.size(), f); fclose(f); } }
    int efd = memfd_create("err", 0); std::string tool = tools + "unzck";
    pid_t pid = fork();
    if (pid == 0) {
        struct rlimit rl = {30, 32}; setrlimit(RLIMIT_CPU, &rl); struct itimerval it; memset(&it, 0, sizeof it); setitimer(ITIMER_PROF, &it, nullptr);
        if (chdir(dir)) _exit(125);
        int dn = open("/dev/null", O_RDWR); dup2(dn, 0); dup2(dn, 1); dup2(efd, 2);
        execl(tool.c_str(), "unzck", "f.zck", (char *)nullptr); _exit(126);
    }
    int st = 0; waitpid(pid, &st, 0); std::string res;
    Bytes eb = lib::fd_bytes(efd); close(efd); std::string err((const char *)eb.data(), eb.size());
    if (WIFSIGNALED(st)) res = "unzck killed by signal " + std::to_string(WTERMSIG(st)) + ": " + err.substr(0, 400);
    else if (WEXITSTATUS(st) == 126 || WEXITSTATUS(st) == 125) res = "cannot run " + tool;
    else *exit_code = WEXITSTATUS(st);
    if (res.empty() && *exit_code == 0) { int fd = open(outp.c_str(), O_RDONLY); if (fd >= 0) { out = lib::fd_bytes(fd); close(fd); } else res = "unzck exited 0 without producing its output file"; }
    std::string cmd = std::string("rm -rf ") + dir; int rc = system(cmd.c_str()); (void)rc;
    return res;
}

PBT_MAIN("C02", prop, nullptr)
