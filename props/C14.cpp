// C14  Random access returns each chunk's exact data regardless of request history.
//
// Generated: a valid file with a known chunk table (none/zstd, +/- dictionary, 0..8 data chunks
// of varied size incl. 1 byte and duplicates, library- or reference-written) and a request
// sequence over (chunk number incl. dictionary and last, kind in {data, stored data}).
// For small files ALL sequences of length <= 3 are enumerated, each on a fresh context;
// otherwise random sequences of up to 40 requests (optionally after a partial sequential read).
// Oracle (model = the chunk table): a data request returns the declared size and exactly the
// chunk's plain bytes (dictionary bytes for chunk 0); a stored-data request returns the stored
// size and exactly the file extent, whose reference digest is the index digest.  Answers are
// compared against the model after EVERY request, so they cannot depend on the prefix.
#include "pbt/pbt.hpp"
#include "ref/zckref.hpp"
#include "lib/zcklib.hpp"
#include "gen/gens.hpp"
#include "lib/tools.hpp"

using pbt::Ctx; using pbt::Bytes;

struct Req { size_t chunk; bool stored; int shorter = 0; };    // shorter: 0 full-size buffer; 1 one byte; 2 half; 3 size-1 (a caller that only wants the beginning of a chunk)

static std::string req_str(const std::vector<Req> &rs) {
    std::string s; for (auto &r : rs) s += (r.stored ? "S" : "D") + std::to_string(r.chunk) + (r.shorter ? "(short" + std::to_string(r.shorter) + ")" : "") + " "; return s;
}

// Run one sequence on a fresh context; returns "" or a failure description (sig in *sig).
static std::string run_seq(const gen::ZFile &z, const std::vector<Req> &seq, size_t pre_read, std::string *sig) {
    int fd = lib::mkfd(z.file); zckCtx *ctx = zck_create(); std::string out;
    if (!zck_init_read(ctx, fd)) { out = std::string("open failed: ") + zck_get_error(ctx); *sig = "open"; zck_free(&ctx); close(fd); return out; }
    if (pre_read) {     // a sequential read before the first request is part of the history
        std::vector<char> b(pre_read); ssize_t r = zck_read(ctx, b.data(), pre_read);
        if (r < 0 || memcmp(b.data(), z.D.data(), std::min<size_t>(r, z.D.size())) != 0) { out = "sequential pre-read wrong"; *sig = "pre-read"; }
    }
    for (size_t k = 0; k < seq.size() && out.empty(); k++) {
        const Req &rq = seq[k];
        zckChunk *ch = zck_get_chunk(ctx, rq.chunk);
        if (!ch) { out = "zck_get_chunk(" + std::to_string(rq.chunk) + ") returned NULL"; *sig = "get-chunk"; break; }
        if (rq.shorter) {
            // a request with a buffer smaller than the chunk: whatever it returns must fit the buffer and be the beginning of the
            // chunk's (stored) data; its real purpose here is to be part of the history of the requests that follow
            size_t full = rq.stored ? z.clen(rq.chunk) : z.plain[rq.chunk].size(); if (full < 2) continue;
            size_t cap = rq.shorter == 1 ? 1 : rq.shorter == 2 ? full / 2 : full - 1; std::vector<char> b(cap + 1, 0x5a);
            ssize_t r = rq.stored ? zck_get_chunk_comp_data(ch, b.data(), cap) : zck_get_chunk_data(ch, b.data(), cap);
            if (b[cap] != 0x5a || r > (ssize_t)cap) { out = "short request " + std::to_string(k) + " wrote past dst_size"; *sig = "overrun"; break; }
            const uint8_t *src = rq.stored ? z.file.data() + z.off(rq.chunk) : z.plain[rq.chunk].data();
            if (r > 0 && memcmp(b.data(), src, r) != 0) { out = "short request " + std::to_string(k) + " (buffer " + std::to_string(cap) + " of " + std::to_string(full) + ") returned bytes that are not the beginning of chunk " + std::to_string(rq.chunk); *sig = "short-bytes"; break; }
            if (r < 0) (void)!zck_clear_error(ctx);
            continue;
        }
        if (rq.stored) {
            size_t want = z.clen(rq.chunk); std::vector<char> b(want + 1, 0x5a);
            ssize_t r = zck_get_chunk_comp_data(ch, b.data(), want);
            if (r != (ssize_t)want) { out = "request " + std::to_string(k) + " stored data of chunk " + std::to_string(rq.chunk) + " returned " + std::to_string(r) + ", stored size is " + std::to_string(want) + " (" + zck_get_error(ctx) + ")"; *sig = "stored-size"; break; }
            if (want && memcmp(b.data(), z.file.data() + z.off(rq.chunk), want) != 0) { out = "request " + std::to_string(k) + " stored data of chunk " + std::to_string(rq.chunk) + " differs from the file extent"; *sig = "stored-bytes"; break; }
            if (want && ref::digest((int)z.h.chunk_hash_type, (const uint8_t *)b.data(), want) != z.h.entries[rq.chunk].digest) { out = "stored data does not hash to the index digest"; *sig = "stored-digest"; break; }
            if (b[want] != 0x5a) { out = "stored-data request wrote past dst_size"; *sig = "overrun"; break; }
        } else {
            const Bytes &want = z.plain[rq.chunk]; std::vector<char> b(want.size() + 1, 0x5a);
            ssize_t r = zck_get_chunk_data(ch, b.data(), want.size());
            if (r != (ssize_t)want.size()) { out = "request " + std::to_string(k) + " data of chunk " + std::to_string(rq.chunk) + " returned " + std::to_string(r) + ", declared size is " + std::to_string(want.size()) + " (" + zck_get_error(ctx) + ")"; *sig = r < 0 ? "data-error" : "data-size"; break; }
            if (!want.empty() && memcmp(b.data(), want.data(), want.size()) != 0) { out = "request " + std::to_string(k) + " data of chunk " + std::to_string(rq.chunk) + " differs from the chunk's slice of the content"; *sig = "data-bytes"; break; }
            if (b[want.size()] != 0x5a) { out = "data request wrote past dst_size"; *sig = "overrun"; break; }
        }
    }
    zck_free(&ctx); close(fd);
    if (!out.empty()) out += " [sequence: " + req_str(seq) + (pre_read ? "after reading " + std::to_string(pre_read) + " bytes sequentially" : "") + "]";
    return out;
}

static void prop(Ctx &c) {
    gen::ZFileOpts o; o.max_chunks = 8; o.max_chunk = c.tier ? 40000 : 6000; o.big_rate = 10; o.big_huge = c.tier != 0;
    bool exhaustive = c.chance(1, 3);
    if (exhaustive) { o.max_chunks = 4; o.max_chunk = 400; o.big_rate = 0; }
    gen::ZFile z = gen::zfile(c, o);
    size_t n = z.nchunks();
    c.desc << z.desc;
    c.label(z.comp == ZCK_COMP_ZSTD ? "zstd" : "none"); if (!z.plain[0].empty()) c.label("dict");
    std::string sig;
    // the command-line route to a single chunk: `unzck --dict` extracts the dictionary (chunk 0) of a zstd file, from the full
    // file or from its detached header (header + dictionary, identifier ZHR1)
    if (c.gver >= 4 && z.comp == ZCK_COMP_ZSTD && !z.plain[0].empty() && !tools::tool_path("unzck").empty() && (c.rarely(4) || z.plain[0].size() > 32768)) {
        tools::Dir d("c14"); bool detached = c.rarely(3); Bytes f = z.file;
        if (detached) { f.resize(z.h.total_size + z.clen(0)); memcpy(f.data(), "\0ZHR1", 5); }
        d.put("f.zck", f); tools::Run r = tools::run(tools::tool_path("unzck"), {"--dict", "f.zck"}, d.path);
        c.label(detached ? "unzck--dict(detached header)" : "unzck--dict"); if (z.plain[0].size() > 32768) c.label("unzck--dict:dictionary>32KiB");
        if (r.exit_code == 126) c.fail("tool-missing", "cannot run " + tools::tool_path("unzck"));
        if (r.abnormal()) c.label("unzck-abnormal-termination(C03's business)");
        else if (r.exit_code != 0) c.fail("tool-dict-refused", "unzck --dict exits " + std::to_string(r.exit_code) + " on a valid zstd file with a " + std::to_string(z.plain[0].size()) + "-byte dictionary: " + r.err.substr(0, 300));
        else { Bytes out = d.get("f.zdict"); if (out != z.plain[0]) { size_t i = 0; while (i < out.size() && i < z.plain[0].size() && out[i] == z.plain[0][i]) i++;
                   c.fail("tool-dict-bytes", "unzck --dict exits 0 and writes " + std::to_string(out.size()) + " bytes; the dictionary has " + std::to_string(z.plain[0].size()) + " bytes, first difference at " + std::to_string(i)); } }
    }
    if (exhaustive) {
        // all sequences of length <= 3 over (chunk, kind)
        size_t alpha = n * 2; uint64_t runs = 0;
        c.label("exhaustive<=3");
        for (size_t len = 1; len <= 3; len++) {
            size_t total = 1; for (size_t i = 0; i < len; i++) total *= alpha;
            for (size_t code = 0; code < total; code++) {
                std::vector<Req> seq; size_t x = code;
                for (size_t i = 0; i < len; i++) { size_t a = x % alpha; x /= alpha; seq.push_back({a / 2, (a & 1) != 0}); }
                runs++;
                std::string e = run_seq(z, seq, 0, &sig);
                if (!e.empty()) { c.extra_evals = runs; c.fail(sig, e); }
            }
        }
        c.desc << " all " << runs << " sequences of length<=3";
        c.extra_evals = runs; if (n >= 2) { c.extra_distinct = runs; c.nontrivial(); }
        return;
    }
    size_t len = 1 + c.draw(c.tier ? 59 : 39); std::vector<Req> seq; bool after_last = false, repeat = false; std::set<size_t> seen; bool last_seen = false;
    for (size_t i = 0; i < len; i++) {
        Req r; uint64_t k = c.draw(5);
        r.chunk = k == 0 ? n - 1 : k == 1 ? 0 : k == 2 && !seq.empty() ? seq.back().chunk : c.pick(n);
        r.stored = c.rarely(4);
        if (c.gver >= 2 && c.rarely(5)) { r.shorter = 1 + (int)c.draw(2); c.label("short-buffer-request"); }
        if (last_seen) after_last = true; if (seen.count(r.chunk)) repeat = true;
        seen.insert(r.chunk); if (r.chunk == n - 1 && !r.stored) last_seen = true;
        seq.push_back(r);
    }
    size_t pre = 0;   // mixing streaming reads with random access is outside the stated property (no in-tree caller does it)
    c.desc << " seq=" << req_str(seq); if (pre) { c.desc << " pre-read=" << pre; c.label("pre-read"); }
    if (seq.size() >= 2 && (after_last || repeat)) c.nontrivial();
    if (after_last) c.label("request-after-last"); if (repeat) c.label("repeated-chunk");
    std::string e = run_seq(z, seq, pre, &sig);
    if (!e.empty()) c.fail(sig, e);
}

PBT_MAIN("C14", prop, nullptr)
