// C12  I/O failures are reported, never turned into success.
//
// Scenario instances are generated: S1 write+close, S2 open+read+close, S3 the three validators
// (intact and damaged files), S4 zck_copy_chunks, S5 delivery of a range response to the
// download callbacks, S6 the tools zck, unzck, unzck --header, unzck --dict (built with the same
// wrapper, fault plan through the environment).  For each instance a fault-free run counts the
// read / write / lseek / ftruncate calls (on descriptors >= 3: input, output, temporary, source,
// target); then EVERY k of every kind is failed once with each applicable fault (EIO, ENOSPC for
// writes, EINTR, short count: half / 1 byte, and 0 bytes for writes), plus sampled double
// faults.  Interposition: -Wl,--wrap=read,--wrap=write,--wrap=lseek,--wrap=ftruncate
// (lib/iofault.c); a short count really transfers only that many bytes.
// Oracle (memfd / file contents are what really reached each descriptor):
//   S1 all writes + zck_close succeed  => the output decodes (reference) to exactly D;
//   S2 open + reads + close succeed    => bytes returned == D;
//   S3 a validator returns 1           => the reference verdict on the file is "valid"; a chunk
//      flagged valid                   => its bytes hash to its checksum;
//   S4/S5 a chunk flagged valid        => its bytes are completely and correctly in the target;
//   S6 tool exits 0                    => its output is complete and correct.
// A short write that the library successfully retries is a legitimate success.
#include "pbt/pbt.hpp"
#include "ref/zckref.hpp"
#include "lib/zcklib.hpp"
#include "gen/gens.hpp"
#include "gen/dl.hpp"
#include <sys/stat.h>
#include <memory>

using pbt::Ctx; using pbt::Bytes;

extern "C" { void iof_fsize_limit(long bytes); void iof_reset_eof(void); extern int iof_armed, iof_kind, iof_fault, iof_hit, iof_min_fd, iof_kind2, iof_fault2; extern long iof_k, iof_k2, iof_count[4]; }
static const char *KIND[] = {"read", "write", "lseek", "ftruncate"};
static const char *FAULT[] = {"EIO", "ENOSPC", "EINTR", "short(half)", "short(1 byte)", "short(0 bytes) / end of file from here on"};

struct Plan { int kind = -1; long k = 0; int fault = 0; int kind2 = -1; long k2 = 0; int fault2 = 0; long fsize = -1;      // fsize: file-size limit in force while the library runs (disk full / quota at that byte)
    std::string str() const { if (fsize >= 0) return "no file may grow beyond " + std::to_string(fsize) + " bytes (EFBIG past that)"; if (kind < 0) return "no fault"; std::string s = std::string(KIND[kind]) + " #" + std::to_string(k) + " -> " + FAULT[fault]; if (kind2 >= 0) s += " and " + std::string(KIND[kind2]) + " #" + std::to_string(k2) + " -> " + FAULT[fault2]; return s; } };
static bool g_limited = false;
static void arm(const Plan &p) { iof_reset_eof(); for (auto &x : iof_count) x = 0; iof_hit = 0; iof_kind = p.kind; iof_k = p.k; iof_fault = p.fault; iof_kind2 = p.kind2; iof_k2 = p.k2; iof_fault2 = p.fault2; iof_armed = 1; if (p.fsize >= 0) { iof_fsize_limit(p.fsize); g_limited = true; } }
static void disarm() { iof_armed = 0; if (g_limited) { iof_fsize_limit(-1); g_limited = false; } }

// a scenario: run(plan) -> "" or violation text; counts of the fault-free run are left in iof_count
struct Scenario { std::string name; std::function<std::string(const Plan &)> run; std::shared_ptr<std::vector<long>> limits = std::make_shared<std::vector<long>>(); };   // limits: file sizes worth cutting at, filled in by the fault-free run

static bool g_eof_fault = false;      // reads may also hit a premature end of file (0 bytes): only where every read is of a structure of known length
static std::vector<int> faults_for(int kind) { if (kind == 0) return g_eof_fault ? std::vector<int>{0, 2, 3, 4, 5} : std::vector<int>{0, 2, 3, 4}; if (kind == 1) return {0, 1, 2, 3, 4, 5}; return {0}; }

// ---- S1 writer
static Scenario s_write(Ctx &c) {
    auto D = std::make_shared<Bytes>(gen::content(c, 90000).data); auto cfg = std::make_shared<lib::WCfg>(gen::wcfg(c, *D));
    if (cfg->level > 5) cfg->level = 3; if (cfg->chunk_max > 0 && cfg->chunk_max < 64) cfg->chunk_max = 64;
    auto ops = std::make_shared<std::vector<lib::WOp>>(gen::whistory(c, D->size(), cfg->manual)); if (ops->size() > 60) { ops->resize(60); }
    // a caller that does not give up: a failed call is answered with zck_clear_error() and, if the context lets it, the same call again
    bool persistent = c.gver >= 4 && c.rarely(3);
    Scenario s; s.name = "S1 write: D[" + std::to_string(D->size()) + "] cfg{" + cfg->str() + "}" + (persistent ? " caller clears errors and retries" : ""); auto lim = s.limits;
    // the output as a regular file in the directory the library puts its temporary file in (same file system, so in-kernel copies
    // between the two are possible), or an anonymous memory file
    bool regular_out = c.gver >= 4 && c.boolean(); if (regular_out) { s.name += " output=regular file next to the temporary file"; setenv("TMPDIR", "/dev/shm", 1); }
    s.run = [=](const Plan &p) -> std::string {
        int out = -1; if (regular_out) { char fn[64]; snprintf(fn, sizeof fn, "/dev/shm/c12-out-%d-XXXXXX", (int)getpid()); out = mkstemp(fn); if (out >= 0) unlink(fn); }
        if (out < 0) out = memfd_create("out", 0);
        zckCtx *z = zck_create(); bool good = true; std::string why;
        arm(p);
        if (!zck_init_write(z, out)) good = false;
        std::string e; if (good && !lib::apply_cfg(z, *cfg, e)) { disarm(); zck_free(&z); close(out); return ""; }      // refused configuration: outside the property
        size_t off = 0;
        auto again = [&]() { return persistent && zck_clear_error(z); };
        if (good) for (auto &op : *ops) { if (op.end) { if (zck_end_chunk(z) < 0 && !(again() && zck_end_chunk(z) >= 0)) { good = false; break; } } else { size_t n = std::min(op.n, D->size() - off); if (zck_write(z, (const char *)D->data() + off, n) != (ssize_t)n && !(again() && zck_write(z, (const char *)D->data() + off, n) == (ssize_t)n)) { good = false; break; } off += n; } }
        if (good && off < D->size() && zck_write(z, (const char *)D->data() + off, D->size() - off) != (ssize_t)(D->size() - off)) good = false;
        if (good && !zck_close(z) && !(again() && zck_close(z))) good = false;
        disarm();
        std::string res;
        if (good) { Bytes f = lib::fd_bytes(out); ref::ParseResult pr = ref::parse(f); ref::Decoded d; if (pr.ok) d = ref::decode(f, pr.h);
            if (p.kind < 0 && p.fsize < 0 && pr.ok) { long F = (long)f.size(), H = (long)pr.h.total_size, Bd = F - H; for (long v : {F - 1, F - 2, F - 10, F / 2, H, H + 1, H - 1, Bd, Bd + 1, Bd - 1, Bd / 2, 1L, 0L, H / 2, F - Bd / 3, 32768L, 32767L, H + 32768}) if (v >= 0 && v < F) lim->push_back(v); }
            if (!pr.ok || !d.ok) res = "zck_close reported success but the output is not a valid file (" + (pr.ok ? d.reason : pr.reason) + ", " + std::to_string(f.size()) + " bytes reached the descriptor)";
            else if (d.content != *D) res = "zck_close reported success but the output decodes to " + std::to_string(d.content.size()) + " bytes instead of the " + std::to_string(D->size()) + " written"; }
        zck_free(&z); close(out); return res;
    };
    return s;
}
// ---- S2 reader
static Scenario s_read(Ctx &c) {
    gen::ZFileOpts o; o.max_chunks = 8; o.max_chunk = c.boolean() ? 300 : 40000; auto Z = std::make_shared<gen::ZFile>(gen::zfile(c, o)); auto rs = std::make_shared<std::vector<size_t>>(gen::rhistory(c));
    for (auto &x : *rs) if (x < 16) x = 16;
    Scenario s; s.name = "S2 read: {" + Z->desc + "} reads=" + gen::sizes_str(*rs);
    s.run = [=](const Plan &p) -> std::string {
        int fd = lib::mkfd(Z->file); zckCtx *z = zck_create(); Bytes got; bool good = true; std::vector<char> buf; size_t k = 0;
        arm(p);
        if (!zck_init_read(z, fd)) good = false;
        while (good) { size_t n = (*rs)[k++ % rs->size()]; if (buf.size() < n) buf.resize(n); ssize_t g = zck_read(z, buf.data(), n); if (g < 0) { good = false; break; } if (g == 0) break; got.insert(got.end(), buf.data(), buf.data() + g); if (got.size() > Z->D.size() + (1 << 20)) { good = false; break; } }
        if (good && !zck_close(z)) good = false;
        disarm(); zck_free(&z); close(fd);
        if (good && got != Z->D) return "open, every read and close succeeded but " + std::to_string(got.size()) + " bytes were returned, the content has " + std::to_string(Z->D.size());
        return "";
    };
    return s;
}
// ---- S7 chunk access (data / stored data of single chunks) on a complete file
static Scenario s_chunk_access(Ctx &c) {
    gen::ZFileOpts o; o.max_chunks = 6; o.max_chunk = c.boolean() ? 300 : 70000; o.allow_empty = false; auto Z = std::make_shared<gen::ZFile>(gen::zfile(c, o));
    auto reqs = std::make_shared<std::vector<std::pair<size_t, bool>>>(); size_t nr = 1 + c.draw(4); for (size_t i = 0; i < nr; i++) reqs->push_back({c.pick(Z->nchunks()), c.boolean()});
    Scenario s; s.name = "S7 chunk access: {" + Z->desc + "} " + std::to_string(nr) + " requests";
    s.run = [=](const Plan &p) -> std::string {
        int fd = lib::mkfd(Z->file); zckCtx *z = zck_create(); std::string res;
        arm(p);
        if (zck_init_read(z, fd)) for (auto &rq : *reqs) { zckChunk *ch = zck_get_chunk(z, rq.first); if (!ch) break;
            size_t want = rq.second ? Z->clen(rq.first) : Z->plain[rq.first].size(); std::vector<char> b(want + 1, 0x5a);
            ssize_t r = rq.second ? zck_get_chunk_comp_data(ch, b.data(), want) : zck_get_chunk_data(ch, b.data(), want);
            const uint8_t *truth = rq.second ? Z->file.data() + Z->off(rq.first) : Z->plain[rq.first].data();
            if (r == (ssize_t)want && want && memcmp(b.data(), truth, want) != 0) { res = std::string(rq.second ? "zck_get_chunk_comp_data" : "zck_get_chunk_data") + "(chunk " + std::to_string(rq.first) + ") reported all " + std::to_string(want) + " bytes but they are not the chunk's"; break; }
            if (r < 0 && !zck_clear_error(z)) break; }
        disarm(); zck_free(&z); close(fd); return res;
    };
    return s;
}
// ---- S3 validators
static Scenario s_validate(Ctx &c) {
    gen::ZFileOpts o; o.max_chunks = 6; o.max_chunk = c.boolean() ? 300 : 40000; o.allow_empty = false; auto Z = std::make_shared<gen::ZFile>(gen::zfile(c, o));
    auto F = std::make_shared<Bytes>(Z->file); std::string dmg = "intact"; size_t n = Z->nchunks();
    if (c.boolean()) { size_t i = c.pick(n); if (Z->clen(i)) { (*F)[Z->off(i) + c.pick(Z->clen(i))] ^= 0x21; dmg = "chunk " + std::to_string(i) + " damaged"; } }
    int which = (int)c.draw(2);
    auto truth = std::make_shared<std::vector<bool>>(); bool all = true; for (size_t i = 0; i < n; i++) { bool ok = Z->clen(i) == 0 || ref::digest((int)Z->h.chunk_hash_type, F->data() + Z->off(i), Z->clen(i)) == Z->h.entries[i].digest; truth->push_back(ok); all = all && ok; }
    Scenario s; s.name = std::string("S3 ") + (which == 0 ? "validate_checksums" : which == 1 ? "find_valid_chunks" : "validate_data_checksum") + ": {" + Z->desc + "} " + dmg;
    s.run = [=](const Plan &p) -> std::string {
        int fd = lib::mkfd(*F); zckCtx *z = zck_create(); if (!zck_init_read(z, fd)) { zck_free(&z); close(fd); return ""; }
        arm(p); int r = which == 0 ? zck_validate_checksums(z) : which == 1 ? zck_find_valid_chunks(z) : zck_validate_data_checksum(z); disarm();
        std::string res; if (r == 1 && !all) res = "validator returned 1 although the file does not match its checksums";
        size_t i = 0; for (zckChunk *ch = z->index.first; ch && res.empty(); ch = ch->next, i++) if (ch->valid == 1 && !(*truth)[i]) res = "chunk " + std::to_string(i) + " flagged valid although its bytes do not match its checksum";
        zck_free(&z); close(fd); return res;
    };
    return s;
}
// ---- S4 copy / S5 download delivery share the post-condition
static std::string valid_implies_bytes(zckCtx *tgt, int tfd, const gen::ZFile &B) {
    Bytes T = lib::fd_bytes(tfd); size_t i = 0;
    for (zckChunk *ch = tgt->index.first; ch; ch = ch->next, i++) { size_t off = B.off(i), cl = B.clen(i);
        if (ch->valid == 1 && cl && (T.size() < off + cl || memcmp(T.data() + off, B.file.data() + off, cl) != 0)) return "chunk " + std::to_string(i) + " is flagged valid but its bytes are not completely and correctly in the target"; }
    return "";
}
static Scenario s_copy(Ctx &c) {
    gen::ZFileOpts o; o.max_chunks = 8; o.max_chunk = c.boolean() ? 300 : 40000; o.allow_empty = false; gen::ZParams q = gen::zparams(c, o); auto B = std::make_shared<gen::ZFile>(gen::zfile_build(c, q));
    gen::ZParams qa = q; qa.by_ref = false; if (!qa.chunks.empty() && c.boolean()) qa.chunks[c.pick(qa.chunks.size())] = gen::chunk_content(c, 300); auto A = std::make_shared<gen::ZFile>(gen::zfile_build(c, qa));
    auto T0 = std::make_shared<Bytes>(B->file.begin(), B->file.begin() + B->h.total_size);
    Scenario s; s.name = "S4 copy_chunks: B{" + B->desc + "}"; { long F = (long)B->file.size(), H = (long)B->h.total_size; for (long v : {F - 1, F - 7, (F + H) / 2, H + 1, H + 32768, H + 40000}) if (v > H && v < F) s.limits->push_back(v); for (size_t i = 1; i < B->nchunks(); i += 2) if (B->clen(i) > 1) s.limits->push_back((long)(B->off(i) + B->clen(i) / 2)); }
    s.run = [=](const Plan &p) -> std::string {
        int tfd = lib::mkfd(*T0), sfd = lib::mkfd(A->file); zckCtx *tgt = zck_create(), *src = zck_create(); std::string res;
        if (zck_init_read(tgt, tfd) && zck_init_read(src, sfd)) { (void)!zck_find_valid_chunks(tgt); zck_reset_failed_chunks(tgt); arm(p); (void)!zck_copy_chunks(src, tgt); disarm(); res = valid_implies_bytes(tgt, tfd, *B); }
        zck_free(&tgt); zck_free(&src); close(tfd); close(sfd); return res;
    };
    return s;
}
static Scenario s_download(Ctx &c) {
    gen::ZFileOpts o; o.max_chunks = 8; o.max_chunk = 200; o.allow_empty = false; auto B = std::make_shared<gen::ZFile>(gen::zfile(c, o));
    auto T0 = std::make_shared<Bytes>(B->file); for (size_t i = 0; i < B->nchunks(); i++) if (B->clen(i) && c.chance(2, 3)) std::fill(T0->begin() + B->off(i), T0->begin() + B->off(i) + B->clen(i), 0);
    auto srv = std::make_shared<dl::Server>(); srv->file = B->file; srv->style = dl::gen_style(c, true); int limit = c.boolean() ? -1 : 2;
    uint64_t cs = c.draw(0xffff);
    Scenario s; s.name = "S5 download callbacks: B{" + B->desc + "} limit=" + std::to_string(limit); { long F = (long)B->file.size(), H = (long)B->h.total_size; for (long v : {F - 1, (F + H) / 2, H + 1}) if (v > H && v < F) s.limits->push_back(v); for (size_t i = 1; i < B->nchunks(); i += 2) if (B->clen(i) > 1) s.limits->push_back((long)(B->off(i) + B->clen(i) / 2)); }
    s.run = [=](const Plan &p) -> std::string {
        int tfd = lib::mkfd(*T0); zckCtx *z = zck_create(); std::string res;
        if (zck_init_read(z, tfd)) {
            (void)!zck_find_valid_chunks(z); zck_reset_failed_chunks(z); zckDL *d = zck_dl_init(z); zckRange *r = zck_get_missing_range(z, limit);
            if (r && zck_get_range_count(r) > 0 && zck_dl_set_range(d, r)) { char *rs = zck_get_range_char(z, r); dl::Response resp = srv->respond(rs ? rs : ""); free(rs);
                if (resp.status == 206) { pbt::Rng rr(cs); std::vector<size_t> cuts; size_t st = 1 + rr.below(40); for (size_t q = st; q < resp.body.size(); q += st) cuts.push_back(q);
                    arm(p); (void)dl::deliver(d, resp, cuts, zck_write_chunk_cb); disarm(); res = valid_implies_bytes(z, tfd, *B); } }
            (void)!zck_dl_set_range(d, nullptr); if (r) zck_range_free(&r); zck_dl_free(&d);
        }
        zck_free(&z); close(tfd); return res;
    };
    return s;
}
// ---- S6 tools
static int run_tool_plan(const std::string &tool, const std::vector<std::string> &args, const std::string &cwd, const Plan &p, long counts[4], int *hit) {
    std::string cf = cwd + "/counts"; unlink(cf.c_str());
    pid_t pid = fork();
    if (pid == 0) {
        struct rlimit rl = {30, 32}; setrlimit(RLIMIT_CPU, &rl); struct itimerval it; memset(&it, 0, sizeof it); setitimer(ITIMER_PROF, &it, nullptr);
        if (chdir(cwd.c_str())) _exit(125);
        char plan[64]; snprintf(plan, sizeof plan, "%d:%ld:%d", p.kind, p.k, p.fault); setenv("VERIF_FAULT", plan, 1); setenv("VERIF_FAULT_COUNTFILE", cf.c_str(), 1); if (p.fsize >= 0) setenv("VERIF_FSIZE_LIMIT", std::to_string(p.fsize).c_str(), 1);
        int dn = open("/dev/null", O_RDWR); dup2(dn, 0); dup2(dn, 1); dup2(dn, 2);
        std::vector<char *> av; av.push_back((char *)tool.c_str()); for (auto &a : args) av.push_back((char *)a.c_str()); av.push_back(nullptr);
        execv(tool.c_str(), av.data()); _exit(126);
    }
    int st = 0; waitpid(pid, &st, 0);
    FILE *f = fopen(cf.c_str(), "r"); if (f) { int h = 0; if (fscanf(f, "%ld %ld %ld %ld %d", &counts[0], &counts[1], &counts[2], &counts[3], &h) == 5 && hit) *hit = h; fclose(f); }
    if (WIFSIGNALED(st)) return -WTERMSIG(st);
    return WEXITSTATUS(st);
}
static Bytes slurp(const std::string &p) { Bytes b; int fd = open(p.c_str(), O_RDONLY); if (fd >= 0) { b = lib::fd_bytes(fd); close(fd); } return b; }
static void spit(const std::string &p, const Bytes &b) { FILE *f = fopen(p.c_str(), "wb"); if (f) { fwrite(b.data(), 1, b.size(), f); fclose(f); } }

struct ToolScn { std::string name, tool, dir; std::vector<std::string> args; std::string outfile; std::function<std::string(const Bytes &)> judge; };

static void prop(Ctx &c) {
    uint64_t which = c.draw(9);
    g_eof_fault = c.gver >= 4 && which >= 2 && which != 7;      // not the writer (reads only its own temporary file) and not the zck tool (its input is a stream: end of file is just the end)
    uint64_t evals = 0, reached = 0; std::string fsig, fmsg;
    if (which <= 6) {
        Scenario s = which <= 1 ? s_write(c) : which == 2 ? s_read(c) : which == 3 ? s_validate(c) : which == 4 ? s_copy(c) : which == 5 ? s_download(c) : (c.gver >= 4 && c.boolean() ? s_chunk_access(c) : c.boolean() ? s_read(c) : s_validate(c));
        c.desc << s.name; c.checkpoint();
        Plan none; std::string e0 = s.run(none); long N[4] = {iof_count[0], iof_count[1], iof_count[2], iof_count[3]};
        if (!e0.empty()) c.fail("fault-free-run", "without any fault: " + e0);
        c.desc << " calls: read=" << N[0] << " write=" << N[1] << " lseek=" << N[2] << " ftruncate=" << N[3];
        c.label(s.name.substr(0, 2));
        size_t cap = c.tier ? 400 : 120;
        for (int kind = 0; kind < 4 && fsig.empty(); kind++) {
            std::vector<long> ks; if ((size_t)N[kind] <= cap) for (long k = 1; k <= N[kind]; k++) ks.push_back(k); else { for (size_t i = 0; i < cap; i++) ks.push_back(1 + (long)c.draw(N[kind] - 1)); std::sort(ks.begin(), ks.end()); ks.erase(std::unique(ks.begin(), ks.end()), ks.end()); c.label("sampled-k"); }
            for (long k : ks) for (int f : faults_for(kind)) {
                Plan p; p.kind = kind; p.k = k; p.fault = f; std::string e = s.run(p); evals++; if (iof_hit) reached++;
                if (!e.empty()) { fsig = std::string("false-success:") + s.name.substr(0, 2) + ":" + KIND[kind]; fmsg = "fault plan {" + p.str() + "}: " + e; break; }
                if (!fsig.empty()) break;
            }
        }
        // file-size limits (syscall-independent: whatever call extends a file is cut at the limit, then fails)
        if (c.gver >= 4) { std::vector<long> L = *s.limits; std::sort(L.begin(), L.end()); L.erase(std::unique(L.begin(), L.end()), L.end());
            for (long v : L) { if (!fsig.empty()) break; Plan p; p.fsize = v; std::string e = s.run(p); evals++; reached++;
                if (!e.empty()) { fsig = std::string("false-success:") + s.name.substr(0, 2) + ":size-limit"; fmsg = "fault plan {" + p.str() + "}: " + e; } }
            if (!L.empty()) c.label("size-limit-faults"); }
        // sampled double faults
        for (int t = 0; t < (c.tier ? 200 : 40) && fsig.empty(); t++) {
            Plan p; p.kind = (int)c.draw(2); if (N[p.kind] == 0) continue; p.k = 1 + (long)c.draw(N[p.kind] - 1); auto fl = faults_for(p.kind); p.fault = fl[c.pick(fl.size())];
            p.kind2 = (int)c.draw(2); if (N[p.kind2] == 0) continue; p.k2 = 1 + (long)c.draw(N[p.kind2] - 1); auto fl2 = faults_for(p.kind2); p.fault2 = fl2[c.pick(fl2.size())];
            std::string e = s.run(p); evals++; if (iof_hit) reached++;
            if (!e.empty()) { fsig = std::string("false-success:") + s.name.substr(0, 2) + ":double"; fmsg = "fault plan {" + p.str() + "}: " + e; }
        }
    } else {
        // ---- tools
        const char *bdir = getenv("VERIF_BUILD"); if (!bdir) { c.label("tools-skipped"); return; }
        char dir[128]; snprintf(dir, sizeof dir, "/dev/shm/c12-%d", (int)getpid()); std::string rm = std::string("rm -rf ") + dir; int rc = system(rm.c_str()); (void)rc; mkdir(dir, 0700);
        std::string tools = std::string(bdir) + "/asan/tools-wrap/"; ToolScn t; t.dir = dir;
        if (which == 7) {
            Bytes D = gen::content(c, 150000).data; if (D.empty()) D.push_back('x'); spit(t.dir + "/in.dat", D); t.tool = tools + "zck"; t.args = {"-o", "out.zck", "in.dat"}; if (c.boolean()) { t.args.insert(t.args.begin(), "none"); t.args.insert(t.args.begin(), "--compression-format"); }
            t.outfile = "out.zck"; t.name = "S6 zck D[" + std::to_string(D.size()) + "]";
            Bytes dict; bool zstd = std::find(t.args.begin(), t.args.end(), "none") == t.args.end();
            if (c.gver >= 4) {          // the tool's other inputs and options: dictionary file (also larger than one 32 KiB block), split string, manual chunking, flag 4, chunk hash
                if (c.chance(1, 2)) { size_t n = c.boolean() ? 1 + c.draw(3000) : 30000 + c.draw(90000); dict.resize(n); gen::fill_random(dict.data(), n, c.draw(999)); if (c.boolean() && !D.empty()) for (size_t i = 0; i < n; i++) dict[i] = D[i % D.size()];
                    spit(t.dir + "/d.dict", dict); t.args.insert(t.args.begin(), "d.dict"); t.args.insert(t.args.begin(), "-D"); t.name += " -D[" + std::to_string(n) + "]"; }
                if (c.rarely(3)) { t.args.insert(t.args.begin(), c.boolean() ? "<text:" : "lorem"); t.args.insert(t.args.begin(), "-s"); t.name += " -s"; if (c.boolean()) { t.args.insert(t.args.begin(), "-m"); t.name += " -m"; } }
                if (c.rarely(4)) { t.args.insert(t.args.begin(), "-u"); t.name += " -u"; }
                if (c.rarely(4)) { t.args.insert(t.args.begin(), c.boolean() ? "sha256" : "sha512"); t.args.insert(t.args.begin(), "-h"); t.name += " -h"; }
            }
            t.judge = [D, dict, zstd](const Bytes &out) -> std::string { ref::ParseResult pr = ref::parse(out); ref::Decoded d; if (pr.ok) d = ref::decode(out, pr.h); if (!pr.ok || !d.ok) return "exit 0 but the archive is not a valid file (" + (pr.ok ? d.reason : pr.reason) + ")"; if (d.content != D) return "exit 0 but the archive decodes to " + std::to_string(d.content.size()) + " bytes, the input has " + std::to_string(D.size());
                if (zstd && !dict.empty() && d.dict != dict) return "exit 0 but the archive's dictionary has " + std::to_string(d.dict.size()) + " bytes / differs from the dictionary file given with -D (" + std::to_string(dict.size()) + " bytes)"; return ""; };
        } else {
            gen::ZFileOpts o; o.max_chunks = 6; o.max_chunk = c.boolean() ? 400 : 50000; o.allow_empty = false; gen::ZParams q = gen::zparams(c, o); if (q.dict.empty() && c.boolean()) q.dict = Bytes(120, 'd'); gen::ZFile Z = gen::zfile_build(c, q);
            spit(t.dir + "/f.zck", Z.file); t.tool = tools + "unzck"; uint64_t m = c.draw(2);
            if (m == 0) { t.args = {"f.zck"}; t.outfile = "f"; t.name = "S6 unzck {" + Z.desc + "}"; Bytes D = Z.D; t.judge = [D](const Bytes &out) -> std::string { return out == D ? "" : "exit 0 but the output has " + std::to_string(out.size()) + " bytes / differs from the content (" + std::to_string(D.size()) + " bytes)"; }; }
            else if (m == 1) { t.args = {"--header", "f.zck"}; t.outfile = "f.zhr"; t.name = "S6 unzck --header {" + Z.desc + "}"; Bytes H(Z.file.begin(), Z.file.begin() + Z.h.total_size + Z.clen(0)); memcpy(H.data(), "\0ZHR1", 5);
                       t.judge = [H](const Bytes &out) -> std::string { return out == H ? "" : "exit 0 but the detached header has " + std::to_string(out.size()) + " bytes / differs from header+dictionary (" + std::to_string(H.size()) + " bytes)"; }; }
            else { t.args = {"--dict", "f.zck"}; t.outfile = "f.zdict"; t.name = "S6 unzck --dict {" + Z.desc + "}"; Bytes dict = Z.plain[0]; if (dict.empty()) { rc = system(rm.c_str()); c.label("no-dict"); return; }
                   t.judge = [dict](const Bytes &out) -> std::string { return out == dict ? "" : "exit 0 but the extracted dictionary has " + std::to_string(out.size()) + " bytes / differs (" + std::to_string(dict.size()) + " bytes)"; }; }
        }
        c.desc << t.name; c.checkpoint(); c.label("S6:" + t.tool.substr(t.tool.rfind('/') + 1));
        long N[4] = {0, 0, 0, 0}; Plan none; int hit = 0; int ec = run_tool_plan(t.tool, t.args, t.dir, none, N, &hit);
        if (ec == 126 || ec == 125) { rc = system(rm.c_str()); c.fail("tool-missing", "cannot run " + t.tool); }
        if (ec != 0) { rc = system(rm.c_str()); c.label("tool-fails-without-fault"); return; }
        { std::string e = t.judge(slurp(t.dir + "/" + t.outfile)); if (!e.empty()) { rc = system(rm.c_str()); c.label("tool-wrong-without-fault(C01/C02)"); return; } }
        c.desc << " calls: read=" << N[0] << " write=" << N[1] << " lseek=" << N[2];
        size_t cap = c.tier ? 60 : 14;
        for (int kind = 0; kind < 3 && fsig.empty(); kind++) {
            std::vector<long> ks; if ((size_t)N[kind] <= cap) for (long k = 1; k <= N[kind]; k++) ks.push_back(k); else { for (size_t i = 0; i < cap; i++) ks.push_back(1 + (long)c.draw(N[kind] - 1)); std::sort(ks.begin(), ks.end()); ks.erase(std::unique(ks.begin(), ks.end()), ks.end()); }
            bool all_faults = c.gver >= 4 && (size_t)N[kind] * 4 <= cap;          // few calls of this kind: every fault at every call
            for (long k : ks) for (int fi = 0; fi < (all_faults ? (int)faults_for(kind).size() : 1) && fsig.empty(); fi++) { auto fl = faults_for(kind); int f = all_faults ? fl[fi] : fl[(size_t)(k + kind) % fl.size()]; if (!all_faults && c.tier == 0 && kind == 1 && f == 5) f = 0;
                Plan p; p.kind = kind; p.k = k; p.fault = f; unlink((t.dir + "/" + t.outfile).c_str()); long n2[4]; int h2 = 0; int e2 = run_tool_plan(t.tool, t.args, t.dir, p, n2, &h2); evals++; if (h2) reached++;
                if (e2 == 0) { std::string e = t.judge(slurp(t.dir + "/" + t.outfile)); if (!e.empty()) { fsig = std::string("false-success:S6:") + t.tool.substr(t.tool.rfind('/') + 1) + ":" + KIND[kind]; fmsg = t.name + ", fault plan {" + p.str() + "}: " + e; break; } }
            }
        }
        // file-size limits on whatever the tool writes
        if (c.gver >= 4 && fsig.empty()) { long F = (long)slurp(t.dir + "/" + t.outfile).size(); if (F == 0) { Plan none2; long n3[4]; int h3 = 0; unlink((t.dir + "/" + t.outfile).c_str()); run_tool_plan(t.tool, t.args, t.dir, none2, n3, &h3); F = (long)slurp(t.dir + "/" + t.outfile).size(); }
            std::vector<long> L; for (long v : {F - 1, F - 9, F / 2, F / 3, 1L, 32768L, F - 32768}) if (v > 0 && v < F) L.push_back(v); std::sort(L.begin(), L.end()); L.erase(std::unique(L.begin(), L.end()), L.end());
            for (long v : L) { Plan p; p.fsize = v; unlink((t.dir + "/" + t.outfile).c_str()); long n2[4]; int h2 = 0; int e2 = run_tool_plan(t.tool, t.args, t.dir, p, n2, &h2); evals++; reached++;
                if (e2 == 0) { std::string e = t.judge(slurp(t.dir + "/" + t.outfile)); if (!e.empty()) { fsig = std::string("false-success:S6:") + t.tool.substr(t.tool.rfind('/') + 1) + ":size-limit"; fmsg = t.name + ", fault plan {" + p.str() + "}: " + e; break; } } }
            if (!L.empty()) c.label("size-limit-faults"); }
        rc = system(rm.c_str());
    }
    c.desc << " fault-runs=" << evals << " (fault reached in " << reached << ")";
    c.extra_evals = evals; c.extra_distinct = reached; if (reached) c.nontrivial();
    if (!fsig.empty()) c.fail(fsig, fmsg);
}

PBT_MAIN("C12", prop, nullptr)
