// C16  Chunking is deterministic, content-defined and local.
//
// Generated: content D1 (random data for hash-triggered boundaries, low-entropy data for
// max-size boundaries; up to 1 MiB quick / 3 MiB thorough), a writer configuration, two
// independent segmentations of D1 into write calls (manual mode: both place end_chunk at the
// same content offsets), and an edit (insert / delete / replace a block at the start, middle
// or end) giving D2.
// Oracle:
//  (a) the two segmentations and a repeated run give byte-identical files;
//  (b) prefix locality: every chunk of out(D1) that ends strictly before the first differing
//      byte appears at the same position in out(D2) with equal digest, sizes and stored bytes;
//  (c) suffix locality: from the first point of the shared suffix where both outputs start a
//      chunk, all following chunks are pairwise identical;
//  (d) automatic mode without explicit end_chunk: every chunk but the last has a size within
//      [effective minimum, effective maximum].
#include "pbt/pbt.hpp"
#include "ref/zckref.hpp"
#include "lib/zcklib.hpp"
#include "gen/gens.hpp"

using pbt::Ctx; using pbt::Bytes;

// ops from write-call cut points and end_chunk offsets (both sorted content offsets)
static std::vector<lib::WOp> make_ops(size_t len, const std::vector<size_t> &cuts, const std::vector<size_t> &ends) {
    std::vector<size_t> pts(cuts); pts.insert(pts.end(), ends.begin(), ends.end()); pts.push_back(len);
    std::sort(pts.begin(), pts.end()); pts.erase(std::unique(pts.begin(), pts.end()), pts.end());
    std::vector<lib::WOp> ops; size_t at = 0; std::set<size_t> e(ends.begin(), ends.end());
    if (e.count(0)) ops.push_back({true, 0});
    for (size_t p : pts) { if (p > len) break; if (p > at) { ops.push_back({false, p - at}); at = p; } if (p && e.count(p)) ops.push_back({true, 0}); }
    return ops;
}
static std::vector<size_t> gen_cuts(Ctx &c, size_t len) {
    std::vector<size_t> cuts; if (len == 0) return cuts;
    switch (c.draw(4)) {
    case 0: break;                                                                   // one write
    case 1: { size_t step = 1 + c.draw(99); for (size_t p = step; p < len && cuts.size() < 4000; p += step) cuts.push_back(p); break; }   // tiny equal writes (bounded)
    case 2: { static const size_t s[] = {4096, 8191, 8192, 8193, 32767, 32768, 32769, 131071, 131072, 131073}; size_t p = 0; while (cuts.size() < 3000) { p += s[c.pick(10)]; if (p >= len) break; cuts.push_back(p); } break; }
    case 3: { size_t n = c.draw(40); for (size_t i = 0; i < n; i++) cuts.push_back(c.draw(len)); std::sort(cuts.begin(), cuts.end()); break; }
    default: { size_t p = 0; while (cuts.size() < 3000) { p += 1 + c.skewed(70000); if (p >= len) break; cuts.push_back(p); } break; }
    }
    return cuts;
}

struct Out { Bytes file; ref::Header h; std::vector<size_t> pstart; };   // pstart[i] = plain offset of data chunk i (entries[i+1])
static Out run(Ctx &c, const lib::WCfg &cfg, const Bytes &D, const std::vector<lib::WOp> &ops, const char *what) {
    lib::WResult w = lib::write_file(cfg, D, ops);
    if (!w.cfg_ok) c.discard();
    if (!w.ok) c.fail("write-failed", std::string(what) + ": " + w.err);
    Out o; o.file = w.file; ref::ParseResult pr = ref::parse(o.file);
    if (!pr.ok) c.fail("ref-header", std::string(what) + ": reference rejects the written header: " + pr.reason);
    o.h = pr.h; size_t p = 0; for (size_t i = 1; i < o.h.entries.size(); i++) { o.pstart.push_back(p); p += o.h.entries[i].len; }
    if (p != D.size()) c.fail("sizes", std::string(what) + ": declared chunk sizes sum to " + std::to_string(p) + ", content has " + std::to_string(D.size()));
    return o;
}
static bool same_chunk(const Out &a, size_t i, const Out &b, size_t j) {
    const ref::Entry &x = a.h.entries[i + 1], &y = b.h.entries[j + 1];
    if (x.digest != y.digest || x.comp_len != y.comp_len || x.len != y.len || x.udigest != y.udigest) return false;
    size_t oa = a.h.total_size + (size_t)a.h.starts[i + 1], ob = b.h.total_size + (size_t)b.h.starts[j + 1];
    return memcmp(a.file.data() + oa, b.file.data() + ob, x.comp_len) == 0;
}

// Two writers alive at the same time in one thread, fed alternately (an application producing several files at once): each output
// must be the file its content and configuration give when written alone.
static bool write_interleaved(const lib::WCfg &cfg, const Bytes &Da, const std::vector<lib::WOp> &oa, const Bytes &Db, const std::vector<lib::WOp> &ob, Bytes &fa, Bytes &fb, std::string &err) {
    int fd[2] = {memfd_create("ia", 0), memfd_create("ib", 0)}; zckCtx *z[2] = {zck_create(), zck_create()}; const Bytes *D[2] = {&Da, &Db}; const std::vector<lib::WOp> *ops[2] = {&oa, &ob};
    size_t at[2] = {0, 0}, off[2] = {0, 0}; bool ok = true;
    for (int k = 0; k < 2 && ok; k++) { if (!zck_init_write(z[k], fd[k]) || !lib::apply_cfg(z[k], cfg, err)) ok = false; }
    while (ok && (at[0] < ops[0]->size() || at[1] < ops[1]->size())) for (int k = 0; k < 2 && ok; k++) {
        if (at[k] >= ops[k]->size()) continue; const lib::WOp &op = (*ops[k])[at[k]++];
        if (op.end) { if (zck_end_chunk(z[k]) < 0) { ok = false; err = zck_get_error(z[k]); } }
        else { size_t n = std::min(op.n, D[k]->size() - off[k]); if (zck_write(z[k], (const char *)D[k]->data() + off[k], n) != (ssize_t)n) { ok = false; err = zck_get_error(z[k]); } off[k] += n; }
    }
    for (int k = 0; k < 2 && ok; k++) { if (off[k] < D[k]->size() && zck_write(z[k], (const char *)D[k]->data() + off[k], D[k]->size() - off[k]) < 0) ok = false; if (ok && !zck_close(z[k])) { ok = false; err = zck_get_error(z[k]); } }
    if (ok) { fa = lib::fd_bytes(fd[0]); fb = lib::fd_bytes(fd[1]); }
    for (int k = 0; k < 2; k++) { zck_free(&z[k]); close(fd[k]); }
    return ok;
}

static void prop(Ctx &c) {
    // content: mostly random (hash boundaries) or low entropy (max boundaries), big enough for several chunks
    size_t cap = c.tier ? (3u << 20) : (1u << 20);
    static const int kinds[] = {2, 2, 2, 5, 4, 3, 7, 6}; int kind = kinds[c.pick(8)];
    size_t len = c.chance(3, 4) ? 40000 + c.sized(0, cap - 40000) : c.skewed(200000);
    Bytes D1 = gen::make_content(kind, len, c.draw(0xffff));
    lib::WCfg cfg;
    cfg.comp = c.boolean() ? ZCK_COMP_ZSTD : ZCK_COMP_NONE;
    if (cfg.comp == ZCK_COMP_ZSTD) cfg.level = (int)c.draw(len > 300000 ? 2 : 5);
    if (c.rarely(4)) cfg.dict = gen::dictionary(c, D1);
    cfg.manual = c.rarely(4);
    if (c.chance(1, 3)) {
        static const long picks[] = {4096, 8192, 10000, 20000, 32768, 65536, 131072, 200000, 10485760};
        cfg.chunk_max = picks[c.pick(9)];
        if (c.boolean()) cfg.chunk_min = (long)(1 + c.draw(std::min<long>(cfg.chunk_max, 40000) - 1));
    }
    // minimum at or above the automatic ceiling of 128 KiB (the automatic maximum is then raised to it: chunks of exactly that size)
    if (c.gver >= 4 && !cfg.manual && c.rarely(12)) { static const long mins[] = {131072, 131073, 150000, 200000}; cfg.chunk_min = mins[c.pick(4)]; static const long maxs[] = {-1, 400000, 1000000}; cfg.chunk_max = maxs[c.pick(3)]; if (cfg.chunk_max < 0) cfg.chunk_max = 10485760; if (len < 500000) { len = 500000 + c.draw(300000); D1 = gen::make_content(kind, len, c.draw(0xffff)); } c.label("minimum>=128KiB"); }
    if (c.rarely(3)) cfg.chunk_hash = (int)c.draw(3);
    if (c.rarely(6)) { cfg.uncomp = true; }
    // end_chunk offsets (manual: always some; auto: sometimes, which disables oracle (d))
    std::vector<size_t> ends;
    if (cfg.manual || c.rarely(5)) { size_t n = cfg.manual ? 1 + c.draw(30) : 1 + c.draw(4); for (size_t i = 0; i < n; i++) ends.push_back(c.draw(D1.size())); std::sort(ends.begin(), ends.end()); }
    // one manual chunk larger than the compressor's window (4 MiB at the default level), then ordinary compressible chunks; the other
    // input has a short chunk in its place.  Whatever the first chunk was, the chunks of the shared suffix must come out the same.
    bool huge = c.gver >= 4 && c.rarely(c.tier ? 25 : 90); size_t hbig = 0;
    if (huge) { cfg.manual = true; cfg.comp = ZCK_COMP_ZSTD; cfg.level = -1; cfg.chunk_max = -1; cfg.chunk_min = -1; cfg.dict.clear(); hbig = (4u << 20) + 1 + c.draw(1u << 20); size_t tail = 400000 + c.draw(400000);
        D1 = gen::make_content(3, hbig, c.draw(0xffff)); Bytes t = gen::make_content(c.chance(2, 3) ? 8 : c.boolean() ? 6 : 5, tail, c.draw(0xffff)); D1.insert(D1.end(), t.begin(), t.end());
        ends.clear(); ends.push_back(hbig); for (size_t p = hbig + 100000 + c.draw(60000); p < D1.size(); p += 100000 + c.draw(60000)) ends.push_back(p); c.label("chunk-larger-than-the-compressor-window"); }
    std::vector<size_t> cuts1 = gen_cuts(c, D1.size()), cuts2 = gen_cuts(c, D1.size());
    // edit
    Bytes D2 = D1; std::string edesc;
    if (huge) { size_t keep = 1 + c.draw(3000); D2.erase(D2.begin() + keep, D2.begin() + hbig); edesc = "first chunk cut down from " + std::to_string(hbig) + " to " + std::to_string(keep) + " bytes"; }
    else {
        uint64_t where = c.draw(2); size_t pos = D1.empty() ? 0 : where == 0 ? c.draw(std::min<size_t>(D1.size(), 2000)) : where == 1 ? c.draw(D1.size()) : D1.size() - c.draw(std::min<size_t>(D1.size(), 2000));
        size_t n = 1 + c.skewed(50000); uint64_t op = c.draw(2);
        if (op == 0) { Bytes ins(n); gen::fill_random(ins.data(), n, c.draw(9999)); D2.insert(D2.begin() + pos, ins.begin(), ins.end()); edesc = "insert " + std::to_string(n) + "@" + std::to_string(pos); }
        else if (op == 1) { n = std::min(n, D1.size() - pos); D2.erase(D2.begin() + pos, D2.begin() + pos + n); edesc = "delete " + std::to_string(n) + "@" + std::to_string(pos); }
        else { n = std::min(n, D1.size() - pos); for (size_t i = 0; i < n; i++) D2[pos + i] ^= (uint8_t)(1 + (i * 7 + pos) % 255); edesc = "replace " + std::to_string(n) + "@" + std::to_string(pos); }
    }
    c.desc << "D1=" << gen::content_kinds[kind] << "[" << D1.size() << "] cfg{" << cfg.str() << "} ends=" << ends.size() << " writes1=" << cuts1.size() + 1 << " writes2=" << cuts2.size() + 1 << " edit=" << edesc;

    std::vector<lib::WOp> ops1 = make_ops(D1.size(), cuts1, ends), ops2 = make_ops(D1.size(), cuts2, ends);
    Out a = run(c, cfg, D1, ops1, "history 1");
    Out b = run(c, cfg, D1, ops2, "history 2");
    c.label(cfg.manual ? "manual" : "auto"); c.label(cfg.comp == ZCK_COMP_ZSTD ? "zstd" : "none");
    size_t nch = a.pstart.size();
    c.label(nch >= 3 ? "chunks>=3" : "chunks<3");
    // (a)
    if (a.file != b.file) {
        size_t i = 0; while (i < a.file.size() && i < b.file.size() && a.file[i] == b.file[i]) i++;
        c.fail("segmentation-dependent", "the same content written through two different write segmentations gives different files (" + std::to_string(a.h.entries.size() - 1) + " vs " + std::to_string(b.h.entries.size() - 1) + " chunks, first difference at byte " + std::to_string(i) + ")");
    }
    if (c.rarely(3)) { Out a2 = run(c, cfg, D1, ops1, "repeat"); if (a2.file != a.file) c.fail("nondeterministic", "writing the same content with the same calls twice gives different files"); c.label("repeat-run"); }
    // (d)
    if (!cfg.manual && ends.empty()) {
        long emin = std::max<long>(8192, cfg.chunk_min < 0 ? 1 : cfg.chunk_min), cmax = cfg.chunk_max < 0 ? 10485760 : cfg.chunk_max, emax = std::min<long>(131072, cmax);
        if (emin > emax) { emin = std::min(emin, cmax); emax = std::max(emax, emin); }
        for (size_t i = 0; i + 1 < nch; i++) {
            long sz = (long)a.h.entries[i + 1].len;
            if (sz < emin || sz > emax) c.fail("chunk-size-bounds", "automatic chunk " + std::to_string(i + 1) + " of " + std::to_string(nch) + " has " + std::to_string(sz) + " bytes, effective bounds are [" + std::to_string(emin) + ", " + std::to_string(emax) + "]");
        }
        c.label("bounds-checked");
    }
    // edited content, same end_chunk offsets where they lie in the shared prefix; in the suffix they move with the content
    size_t pre = 0; while (pre < D1.size() && pre < D2.size() && D1[pre] == D2[pre]) pre++;
    size_t suf = 0; while (suf < D1.size() - pre && suf < D2.size() - pre && D1[D1.size() - 1 - suf] == D2[D2.size() - 1 - suf]) suf++;
    std::vector<size_t> ends2; for (size_t e : ends) { if (e <= pre) ends2.push_back(e); else if (e >= D1.size() - suf) ends2.push_back(e - D1.size() + D2.size()); }
    std::sort(ends2.begin(), ends2.end());
    Out d = run(c, cfg, D2, make_ops(D2.size(), gen_cuts(c, D2.size()), ends2), "edited content");
    // (e) the same two contents written by two contexts that are alive together and fed alternately
    if (c.gver >= 4 && !huge && c.rarely(3)) {
        std::vector<lib::WOp> opsd = make_ops(D2.size(), gen_cuts(c, D2.size()), ends2); Bytes fa, fb; std::string err;
        if (!write_interleaved(cfg, D1, ops2, D2, opsd, fa, fb, err)) c.fail("write-failed", "interleaved writers: " + err);
        c.label("interleaved-writers");
        if (fa != a.file || fb != d.file) c.fail("depends-on-other-context", std::string("two writers fed alternately in one thread: the ") + (fa != a.file ? "first" : "second") + " output differs from the file the same content and configuration give when written alone");
    }
    // (b) prefix locality
    size_t same_pref = 0;
    for (size_t i = 0; i < nch; i++) {
        size_t e = a.pstart[i] + (size_t)a.h.entries[i + 1].len;
        if (e >= pre) break;                                   // the byte following the chunk must still be shared
        if (i >= d.pstart.size() || d.pstart[i] != a.pstart[i] || !same_chunk(a, i, d, i))
            c.fail("prefix-locality", "chunk " + std::to_string(i + 1) + " covering [" + std::to_string(a.pstart[i]) + "," + std::to_string(e) + ") ends before the first differing byte (" + std::to_string(pre) + ") but is not reproduced identically for the edited content");
        same_pref++;
    }
    // (c) suffix locality
    size_t same_suf = 0;
    {
        std::map<long, size_t> dstart; for (size_t j = 0; j < d.pstart.size(); j++) dstart[(long)d.pstart[j] - (long)D2.size()] = j;
        for (size_t i = 0; i < nch; i++) {
            if (a.pstart[i] < D1.size() - suf) continue;
            auto it = dstart.find((long)a.pstart[i] - (long)D1.size());
            if (it == dstart.end()) continue;
            size_t j = it->second;
            // from here on, all following chunks must be pairwise identical
            if (nch - i != d.pstart.size() - j) c.fail("suffix-locality", "both outputs start a chunk " + std::to_string(D1.size() - a.pstart[i]) + " bytes before the end of the shared suffix, but " + std::to_string(nch - i) + " vs " + std::to_string(d.pstart.size() - j) + " chunks follow");
            for (size_t k = 0; i + k < nch; k++) { if (!same_chunk(a, i + k, d, j + k)) c.fail("suffix-locality", "chunk " + std::to_string(k) + " after a common chunk start in the shared suffix differs between the two outputs"); same_suf++; }
            break;
        }
    }
    c.desc << " chunks=" << nch << " shared-prefix-chunks=" << same_pref << " shared-suffix-chunks=" << same_suf;
    if (same_pref) c.label("prefix-chunks-compared"); if (same_suf) c.label("suffix-chunks-compared");
    if (nch >= 3 && (same_pref || same_suf) && ops1.size() != ops2.size()) c.nontrivial();
}

PBT_MAIN("C16", prop, nullptr)
