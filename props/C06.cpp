// C06  The header checksum covers every header byte.
//
// For a generated valid sample (library- or reference-written; every overall hash type, flag 2,
// optional elements, dictionary, 0..many chunks; full file or detached header) EVERY position
// of the header region is substituted with EVERY other byte value (exhaustive per sample) and
// single bytes are inserted / deleted with the lead's size field adjusted; the lead's two integers
// are re-encoded in every longer value-preserving form; the header magic is
// switched between \0ZCK1 and \0ZHR1.  Oracle: zck_init_read must fail for every mutant whose
// header checksum (computed by the reference as the format specifies) no longer matches, and
// must still succeed for the pure magic switch.
#include "pbt/pbt.hpp"
#include "ref/zckref.hpp"
#include "lib/zcklib.hpp"
#include "gen/gens.hpp"
#include "gen/mutate.hpp"
#include "ref/fields.hpp"
#include <set>

using pbt::Ctx; using pbt::Bytes;

static bool lib_opens(int fd) {
    lseek(fd, 0, SEEK_SET);
    zckCtx *z = zck_create(); bool ok = zck_init_read(z, fd); zck_free(&z); return ok;
}
// the same with the caller pinning the expected checksum type / digest / header length (package-manager style)
static bool lib_opens_pinned(int fd, const lib::Pins &p) { lseek(fd, 0, SEEK_SET); zckCtx *z = zck_create(); bool ok = lib::open_pinned(z, fd, p); zck_free(&z); return ok; }
static bool lib_opens_bytes(const Bytes &b) { int fd = lib::mkfd(b); bool ok = lib_opens(fd); close(fd); return ok; }

struct Sample { Bytes file; size_t hdr_len; std::string desc; };

static Sample make_sample(Ctx &c) {
    Sample s; bool from_ref = c.boolean();
    int full_hash = (int)c.draw(3), chunk_hash = (int)c.draw(3); bool uncomp = c.rarely(3);
    if (uncomp && (chunk_hash == 0 || chunk_hash == 3)) chunk_hash = 1;
    int comp = c.boolean() ? ZCK_COMP_ZSTD : ZCK_COMP_NONE;
    size_t nchunks = c.draw(3) == 0 ? 0 : c.draw(12);
    Bytes dict; if (c.rarely(3)) { dict.resize(1 + c.draw(200)); gen::fill_random(dict.data(), dict.size(), c.draw(99)); }
    uint64_t seed = c.draw(999);
    std::vector<Bytes> chunks;
    for (size_t i = 0; i < nchunks; i++) { Bytes b(1 + (seed * 31 + i * 17) % 120); gen::fill_random(b.data(), b.size(), seed + i); chunks.push_back(b); }
    std::ostringstream d;
    if (from_ref) {
        ref::WriteSpec w; w.comp = comp; w.hash_type = full_hash; w.chunk_hash_type = chunk_hash; w.uncomp_flag = uncomp; w.dict = dict; w.chunks = chunks;
        if (c.rarely(3)) { size_t no = c.draw(3); for (size_t i = 0; i < no; i++) { ref::OptElem e; e.id = c.draw(300); e.data = c.bytes(c.draw(10)); w.opt.push_back(e); } }
        ref::EmitOpts o; if (c.rarely(4)) o.trailing = c.bytes(1 + c.draw(6));
        if (c.rarely(4)) { o.pad_flags = 1 + c.draw(3); o.pad_count = 1 + c.draw(3); o.pad_lens = c.draw(4); o.pad_header_len = c.draw(4); }
        ref::Written wr = ref::write(w, o); s.file = wr.file;
        d << "ref-written";
        if (!w.opt.empty()) d << " optelems=" << w.opt.size(); if (!o.trailing.empty()) d << " trailing=" << o.trailing.size(); if (o.pad_flags) d << " padded-ints";
    } else {
        lib::WCfg w; w.comp = comp; w.full_hash = full_hash; w.chunk_hash = chunk_hash; w.uncomp = uncomp; w.dict = dict; w.manual = true;
        Bytes D; std::vector<lib::WOp> ops;
        for (auto &ch : chunks) { D.insert(D.end(), ch.begin(), ch.end()); ops.push_back({false, ch.size()}); ops.push_back({true, 0}); }
        lib::WResult wr = lib::write_file(w, D, ops);
        if (!wr.ok) c.fail("sample-write", "library failed to write a plain sample: " + wr.cfg_err + wr.err);
        s.file = wr.file; d << "lib-written";
    }
    ref::ParseResult pr = ref::parse(s.file);
    if (!pr.ok) c.fail("sample-parse", "reference rejects the sample: " + pr.reason);
    s.hdr_len = pr.h.total_size;
    bool detached = c.rarely(3);
    if (detached) {     // detached header = header bytes (+ the dictionary chunk), magic ZHR1
        size_t keep = s.hdr_len + (c.boolean() ? pr.h.entries[0].comp_len : 0);
        s.file.resize(keep); memcpy(s.file.data(), "\0ZHR1", 5);
    }
    d << (detached ? " detached" : " full") << " fullhash=" << full_hash << " chunkhash=" << chunk_hash << (uncomp ? " flag2" : "") << " comp=" << comp
      << " dict=" << dict.size() << " chunks=" << nchunks << " header=" << s.hdr_len << "B";
    s.desc = d.str(); return s;
}

// Converse direction ("opens ONLY IF stored == computed"): many multi-byte alterations of the header, re-sealed or
// not, with the stored digest kept, damaged or recomputed; whenever the library opens the image the reference must
// confirm that the stored checksum equals the one computed over the header bytes as the format specifies.
static void converse(Ctx &c, const Sample &s) {
    ref::ParseResult p0 = ref::parse(s.file); uint64_t n = 0, opened = 0; size_t rounds = c.tier ? 400 : 120;
    for (size_t r = 0; r < rounds; r++) {
        Bytes m; std::string how;
        uint64_t k = c.draw(3);
        if (k <= 1) {
            ref::Fields F = ref::fields_from(p0.h); size_t nm = 1 + c.draw(2); for (size_t i = 0; i < nm; i++) how += gen::mutate_field(c, F) + "; ";
            F.bad_checksum = k == 1 && c.boolean(); m = ref::emit(F);
            if (k == 1 && !F.bad_checksum && ref::digest_size(p0.h.hash_type) > 0) {   // keep the ORIGINAL stored digest, at the place the altered lead puts its digest
                ref::ParseResult pm = ref::parse(m); size_t ds = p0.h.header_digest.size();
                if (pm.h.lead_size >= ds + 7 && pm.h.header_digest.size() == ds && m.size() >= pm.h.lead_size) { memcpy(m.data() + pm.h.lead_size - ds, p0.h.header_digest.data(), ds); how += "(original stored digest kept) "; } }
            m.insert(m.end(), s.file.begin() + std::min(s.file.size(), p0.h.total_size), s.file.end());
        } else { m = s.file; size_t nm = 1 + c.draw(3); for (size_t i = 0; i < nm; i++) { Bytes hdr(m.begin(), m.begin() + std::min(m.size(), s.hdr_len)); how += gen::mutate_raw(c, hdr, hdr.size()) + "; "; Bytes rest(m.begin() + std::min(m.size(), s.hdr_len), m.end()); m = hdr; m.insert(m.end(), rest.begin(), rest.end()); } if (k == 3) { ref::reseal(m); how += "(re-sealed) "; } }
        n++;
        if (lib_opens_bytes(m)) { opened++; ref::ParseResult pr = ref::parse(m);
            if (!pr.h.checksum_ok) { c.extra_evals = n; c.fail("opens-with-wrong-checksum", "an image opens although its stored header checksum is not the checksum of its header bytes [" + how + "] (reference: " + pr.reason + ")"); } }
    }
    c.desc << " converse-mode: " << n << " alterations, " << opened << " opened"; c.extra_evals = n; c.extra_distinct = n; c.nontrivial(); c.label("converse-mode");
}

// "Opens ONLY IF stored == computed", attacked directly: the stored checksum is replaced by the checksum of the header with
// some bytes LEFT OUT (or zeroed) - what a reader that fails to feed those bytes to its hash would compute.  Every single
// position, every adjacent pair, the first/last 1..4 bytes of the header body and of the lead's hashed part: none may open.
// Runs whether or not the library opens the unaltered sample.
static void forged_checksums(Ctx &c, const Sample &s, uint64_t &evals) {
    if (c.gver < 4) return;
    {
        ref::ParseResult pq = ref::parse(s.file); size_t ds = ref::digest_size(pq.h.hash_type), dloc = pq.h.lead_size - ds, H = pq.h.total_size;
        auto forged = [&](const std::vector<std::pair<size_t, size_t>> &skip, bool zero) {      // checksum over the header minus / with zeroed [a,b) ranges (the digest field itself is never hashed)
            Bytes msg; for (size_t i = 0; i < H; i++) { if (i >= dloc && i < pq.h.lead_size) continue; bool sk = false; for (auto &r : skip) if (i >= r.first && i < r.second) sk = true; if (sk) { if (zero) msg.push_back(0); continue; } msg.push_back(i < 5 ? (uint8_t)"\0ZCK1"[i] : s.file[i]); }      // the identifier is always hashed as ZCK1
            return ref::digest((int)pq.h.hash_type, msg.data(), msg.size()); };
        std::vector<std::vector<std::pair<size_t, size_t>>> sets;
        if (H > 3000) { for (size_t b = 0; b < H; b += 16384) { sets.push_back({{b, std::min(H, b + 16384)}}); sets.push_back({{std::min(H, pq.h.lead_size + b), std::min(H, pq.h.lead_size + b + 16384)}}); sets.push_back({{b, std::min(H, b + 32768)}}); sets.push_back({{std::min(H, pq.h.lead_size + b), std::min(H, pq.h.lead_size + b + 32768)}}); }
                       size_t body = H - pq.h.lead_size; if (body % 32768) sets.push_back({{H - body % 32768, H}}); if (body % 16384) sets.push_back({{H - body % 16384, H}}); }
        else for (size_t i = 0; i < H; i++) { if (i >= dloc && i < pq.h.lead_size) continue; sets.push_back({{i, i + 1}}); if (i + 2 <= H && !(i + 1 >= dloc && i + 1 < pq.h.lead_size)) sets.push_back({{i, i + 2}}); }
        for (size_t k = 1; k <= 4; k++) { sets.push_back({{pq.h.lead_size, std::min(H, pq.h.lead_size + k)}}); sets.push_back({{H - std::min(H - pq.h.lead_size, k), H}}); sets.push_back({{0, std::min(dloc, k)}}); sets.push_back({{dloc - std::min(dloc, k), dloc}}); }
        sets.push_back({{0, 5}}); sets.push_back({{5, dloc}}); sets.push_back({{0, dloc}}); sets.push_back({{pq.h.lead_size, H}});
        Bytes orig_digest(s.file.begin() + dloc, s.file.begin() + pq.h.lead_size);
        for (auto &st : sets) for (int zero = 0; zero < 2; zero++) {
            if (st[0].first >= st[0].second) continue;
            Bytes dg = forged(st, zero != 0); if (dg == orig_digest) continue;              // the left-out bytes were zeros already / nothing changed
            Bytes m = s.file; memcpy(m.data() + dloc, dg.data(), ds); evals++;
            if (lib_opens_bytes(m)) { c.extra_evals = evals; c.fail("forged-checksum-accepted", "the stored checksum was replaced by the checksum of the header with bytes [" + std::to_string(st[0].first) + "," + std::to_string(st[0].second) + ") " + (zero ? "zeroed" : "left out") + " and the file still opens: those bytes are not covered"); }
        }
        // a detached header whose stored checksum was computed over its own identifier (ZHR1) instead of the specified ZCK1
        if (memcmp(s.file.data(), "\0ZHR1", 5) == 0) { Bytes msg; for (size_t i = 0; i < H; i++) { if (i >= dloc && i < pq.h.lead_size) continue; msg.push_back(s.file[i]); }
            Bytes dg = ref::digest((int)pq.h.hash_type, msg.data(), msg.size()); Bytes m = s.file; memcpy(m.data() + dloc, dg.data(), ds); evals++;
            if (dg != orig_digest && lib_opens_bytes(m)) { c.extra_evals = evals; c.fail("forged-checksum-accepted", "a detached header whose stored checksum was computed over its own identifier (ZHR1) rather than over ZCK1 as the format specifies still opens"); } }
        c.label("forged-checksums");
    }
}

// Large headers (thousands of index entries): the header body, or the whole header, is steered onto the sizes at which the
// library's internal block buffers (32 KiB read/hash blocks, the 16 KiB transport buffer) end exactly, and one byte to either
// side; substitutions are sampled there (every lead byte, the first and last bytes of the body, the bytes around every 4 KiB
// multiple, random positions) because position x value over 30-70 KiB is too large to enumerate per sample.
static void big_header(Ctx &c) {
    int full_hash = (int)c.draw(3), chunk_hash = (int)c.draw(3); bool from_ref = c.rarely(3), align_total = c.boolean();
    size_t T; uint64_t tk = c.draw(19);
    if (tk < 10) T = 32768 * (1 + (size_t)c.draw(2));                                  // the 32 KiB block size and its multiples
    else if (tk < 13) T = 16384 * (1 + 2 * (size_t)c.draw(1));                         // 16 KiB, 48 KiB
    else if (tk < 16) T = 32768 * (1 + (size_t)c.draw(1)) + (c.boolean() ? 1 : -1);    // one byte to either side
    else T = 20000 + (size_t)c.draw(50000);
    uint64_t seed = c.draw(9999);
    size_t e = ref::digest_size(chunk_hash) + 2, nA = T / e, nB = 0, nC = 0; Bytes file; size_t L = 0; ref::ParseResult pr;
    for (int it = 0; it < 8; it++) {                      // nA chunks of 100 bytes, nB of 200 (+2 index bytes each), nC of 125 (+1)
        std::vector<Bytes> chunks; size_t k = 0;
        auto add = [&](size_t n, size_t len) { for (size_t i = 0; i < n; i++, k++) { Bytes b(len); gen::fill_random(b.data(), len, seed * 7919 + k); chunks.push_back(b); } };
        add(nB, 200); add(nC, 125); add(nA, 100);
        if (from_ref) { ref::WriteSpec w; w.comp = ZCK_COMP_ZSTD; w.hash_type = full_hash; w.chunk_hash_type = chunk_hash; w.chunks = chunks; file = ref::write(w).file; }
        else { lib::WCfg w; w.comp = ZCK_COMP_ZSTD; w.full_hash = full_hash; w.chunk_hash = chunk_hash; w.manual = true; Bytes D; std::vector<lib::WOp> ops;
               for (auto &ch : chunks) { D.insert(D.end(), ch.begin(), ch.end()); ops.push_back({false, ch.size()}); ops.push_back({true, 0}); }
               lib::WResult wr = lib::write_file(w, D, ops); if (!wr.ok) c.fail("sample-write", "library failed to write a plain sample: " + wr.cfg_err + wr.err); file = wr.file; }
        pr = ref::parse(file); if (!pr.ok) c.fail("sample-parse", "reference rejects the sample: " + pr.reason);
        L = align_total ? pr.h.total_size : pr.h.header_length;
        if (getenv("C06_TRACE")) { FILE *tf = fopen(getenv("C06_TRACE"), "a"); fprintf(tf, "it=%d nA=%zu nB=%zu nC=%zu L=%zu T=%zu\n", it, nA, nB, nC, L, T); fclose(tf); }
        if (L == T) break;
        if (L > T) { size_t d = (L - T + e - 1) / e + 1; nA = nA > d ? nA - d : 1; nB = nC = 0; continue; }
        size_t d = T - L; nA += d / e; d %= e; size_t cb = d / 2, cc = d % 2; nB += cb; nC += cc; nA = nA > cb + cc ? nA - cb - cc : 0;      // convert 100-byte chunks
    }
    size_t hdr = pr.h.total_size, lead = pr.h.lead_size;
    c.desc << (from_ref ? "ref-written" : "lib-written") << " big header: " << (align_total ? "whole header " : "header body ") << L << " bytes (aimed at " << T << "), " << pr.h.entries.size() << " index entries, fullhash=" << full_hash << " chunkhash=" << chunk_hash;
    c.label(L == T ? "big-header-aligned" : "big-header-unaligned"); if (L == T && T % 32768 == 0) c.label(from_ref ? "big-header-on-32KiB-multiple(ref-written)" : align_total ? "big-header-on-32KiB-multiple(whole,lib-written)" : "big-header-on-32KiB-multiple(body,lib-written)");
    int fd = lib::mkfd(file); uint64_t evals = 0;
    { Sample sm; sm.file = file; sm.hdr_len = pr.h.total_size; forged_checksums(c, sm, evals); }
    if (!lib_opens(fd)) { close(fd); c.label("sample-not-opened"); c.desc << " (library refuses the unmutated sample)"; c.extra_evals = evals; c.extra_distinct = evals; if (evals) c.nontrivial(); return; }
    std::set<size_t> P; for (size_t i = 0; i < lead; i++) P.insert(i);
    for (size_t i = 0; i < 48 && lead + i < hdr; i++) P.insert(lead + i);
    for (size_t i = 1; i <= 400 && i <= hdr; i++) P.insert(hdr - i);
    for (size_t m = 4096; m < hdr + 4096; m += 4096) for (long dlt = -3; dlt <= 3; dlt++) { for (size_t base : {(size_t)0, lead}) { long q = (long)base + (long)m + dlt; if (q >= 0 && (size_t)q < hdr) P.insert((size_t)q); } }
    pbt::Rng rng(seed + 17); for (int i = 0; i < 300; i++) P.insert(rng.below(hdr));
    for (size_t pos : P) { uint8_t orig = file[pos];
        for (uint8_t v : {(uint8_t)(orig ^ 1), (uint8_t)(orig ^ 0x80), (uint8_t)(orig + 37)}) {
            if (pwrite(fd, &v, 1, pos) != 1) abort(); evals++;
            if (lib_opens(fd)) { Bytes m = file; m[pos] = v; ref::ParseResult q = ref::parse(m);
                if (!q.ok || !q.h.checksum_ok) { close(fd); c.extra_evals = evals; c.fail("subst-accepted", "header byte " + std::to_string(pos) + " of " + std::to_string(hdr) + " changed from " + std::to_string(orig) + " to " + std::to_string(v) + " and the file still opens (reference: " + q.reason + ")"); } }
        }
        if (pwrite(fd, &orig, 1, pos) != 1) abort(); }
    close(fd); c.extra_evals = evals; c.extra_distinct = evals; c.nontrivial();
}

static void prop(Ctx &c) {
    if (c.gver >= 4 && c.rarely(4)) { big_header(c); return; }
    Sample s = make_sample(c);
    c.desc << s.desc;
    if (c.chance(1, 3)) { converse(c, s); return; }
    int fd = lib::mkfd(s.file);
    if (!lib_opens(fd)) { close(fd); c.label("sample-not-opened"); c.desc << " (library refuses the unmutated sample)"; uint64_t ev = 0; forged_checksums(c, s, ev); c.extra_evals = ev; c.extra_distinct = ev; if (ev) c.nontrivial(); return; }
    c.label(s.desc.find("detached") != std::string::npos ? "detached" : "full");
    // pure magic switch must still open
    {
        Bytes m = s.file; bool was_det = memcmp(m.data(), "\0ZHR1", 5) == 0; memcpy(m.data(), was_det ? "\0ZCK1" : "\0ZHR1", 5);
        if (!lib_opens_bytes(m)) { close(fd); c.fail("magic-switch", std::string("switching the identifier to ") + (was_det ? "ZCK1" : "ZHR1") + " alone makes open fail"); }
    }
    uint64_t evals = 0;
    // opening with the stored values pinned must not weaken the check: every mutant must fail under pinning too
    lib::Pins pins; { ref::ParseResult p0 = ref::parse(s.file); pins.type = (int)p0.h.hash_type; pins.digest_hex = lib::hex_of(p0.h.header_digest); pins.length = (long)p0.h.total_size; }
    if (!lib_opens_pinned(fd, pins)) { close(fd); c.fail("pinned-open-fails", "the unmutated sample does not open when its own checksum type, digest and header length are pinned"); }
    bool pin_all = c.boolean();      // pinned variant: all 255 values for half of the samples, 3 values per position otherwise
    // exhaustive: every header position x every other value
    for (size_t pos = 0; pos < s.hdr_len; pos++) {
        uint8_t orig = s.file[pos];
        for (int v = 0; v < 256; v++) {
            if (v == orig) continue;
            uint8_t b = (uint8_t)v; if (pwrite(fd, &b, 1, pos) != 1) abort();
            evals++;
            if ((pin_all || v == (orig ^ 1) || v == (orig ^ 0x80) || v == ((orig + 37) & 255)) && lib_opens_pinned(fd, pins)) {
                Bytes m = s.file; m[pos] = b; ref::ParseResult pr = ref::parse(m);
                if (!pr.ok || !pr.h.checksum_ok) { close(fd); c.extra_evals = evals; c.fail("subst-accepted-under-pinning", "header byte " + std::to_string(pos) + " changed from " + std::to_string(orig) + " to " + std::to_string(v) + " and the file still opens when the expected header checksum is pinned (reference: " + pr.reason + ")"); }
            }
            evals++;
            if (lib_opens(fd)) {
                // the reference decides whether this mutant's stored checksum still equals the computed one
                Bytes m = s.file; m[pos] = b; ref::ParseResult pr = ref::parse(m);
                if (!pr.ok || !pr.h.checksum_ok) {
                    close(fd); c.extra_evals = evals;
                    c.fail("subst-accepted", "header byte " + std::to_string(pos) + " changed from " + std::to_string(orig) + " to " + std::to_string(v) + " and the file still opens (reference: " + pr.reason + ")");
                }
            }
        }
        if (pwrite(fd, &orig, 1, pos) != 1) abort();
    }
    // a context that has already read the lead of the intact file and is then pointed at an altered copy
    // (lead re-read on the same context, as after downloading more of a file) must judge the NEW bytes
    {
        ref::ParseResult pq = ref::parse(s.file); size_t ds = ref::digest_size(pq.h.hash_type), dloc = pq.h.lead_size - ds;
        for (size_t k = 0; k < 6; k++) {
            size_t pos = k < 3 ? dloc + (k * 7 + s.file[5]) % ds : pq.h.lead_size + (k * 131 + s.file[dloc]) % std::max<size_t>(1, pq.h.total_size - pq.h.lead_size);
            if (pos >= s.hdr_len) continue;
            uint8_t orig = s.file[pos], v = (uint8_t)(orig ^ (1u << (k % 8)));
            lseek(fd, 0, SEEK_SET); zckCtx *z = zck_create(); bool ok = zck_init_adv_read(z, fd) && zck_read_lead(z);
            if (ok) { if (pwrite(fd, &v, 1, pos) != 1) abort(); lseek(fd, 0, SEEK_SET); bool again = zck_read_lead(z) && zck_read_header(z); evals++;
                      if (pwrite(fd, &orig, 1, pos) != 1) abort();
                      if (again) { zck_free(&z); close(fd); c.extra_evals = evals; c.fail("reused-context-accepts-altered-header", "a context that had read the lead of the intact file accepted the file after header byte " + std::to_string(pos) + " was changed (lead read again on the same context)"); } }
            zck_free(&z);
        }
    }
    close(fd);
    forged_checksums(c, s, evals);
    if (c.gver >= 4) {
        ref::ParseResult pq = ref::parse(s.file); size_t ds = ref::digest_size(pq.h.hash_type), dloc = pq.h.lead_size - ds, H = pq.h.total_size;
        // options set AFTER the lead has been read (advanced open): they must not replace the comparison with the stored checksum
        for (size_t k = 0; k < 6; k++) {
            size_t pos = k < 4 ? dloc + (k * 5 + s.file[5]) % ds : pq.h.lead_size + (k * 131 + s.file[dloc]) % std::max<size_t>(1, H - pq.h.lead_size); if (pos >= H) continue;
            Bytes m = s.file; m[pos] ^= (uint8_t)(1u << (k % 8)); int fd3 = lib::mkfd(m); zckCtx *z = zck_create(); evals++;
            bool ok = zck_init_adv_read(z, fd3) && zck_read_lead(z);
            if (ok) { bool t1 = zck_set_ioption(z, ZCK_VAL_HEADER_HASH_TYPE, pins.type), t2 = zck_set_soption(z, ZCK_VAL_HEADER_DIGEST, pins.digest_hex.data(), pins.digest_hex.size()); (void)t1; (void)t2; if (zck_is_error(z)) (void)!zck_clear_error(z);
                      if (zck_read_header(z)) { zck_free(&z); close(fd3); c.extra_evals = evals; c.fail("late-pin-accepts-altered-header", "header byte " + std::to_string(pos) + " was changed; with the true checksum pinned AFTER zck_read_lead the header is accepted"); } }
            zck_free(&z); close(fd3);
        }
    }
    // the advanced open with options a reader has no business setting (writer-side options are accepted or refused, either is
    // fine), and a caller that answers a refused header with zck_clear_error() and asks again on the same context: an altered
    // header must stay refused
    if (c.gver >= 4) {
        ref::ParseResult pq = ref::parse(s.file); size_t H = pq.h.total_size;
        static const int opts[] = {ZCK_UNCOMP_HEADER, ZCK_NO_WRITE, ZCK_HASH_FULL_TYPE, ZCK_HASH_CHUNK_TYPE, ZCK_COMP_TYPE, ZCK_MANUAL_CHUNK, ZCK_CHUNK_MAX, ZCK_CHUNK_MIN, ZCK_ZSTD_COMP_LEVEL};
        for (size_t k = 0; k < 12; k++) {
            size_t pos = (k * 2654435761u + s.file[5] * 131u + s.file[pq.h.lead_size - 1]) % H; Bytes m = s.file; m[pos] ^= (uint8_t)(1u << (k % 8));
            ref::ParseResult pm = ref::parse(m); if (pm.ok && pm.h.checksum_ok) continue;
            int fd4 = lib::mkfd(m); zckCtx *z = zck_create(); evals++; std::string how;
            bool ok = zck_init_adv_read(z, fd4);
            if (ok && k < 9) { int o = opts[k]; ssize_t v = o == ZCK_HASH_FULL_TYPE || o == ZCK_HASH_CHUNK_TYPE ? (ssize_t)((pq.h.hash_type + 1) % 3) : o == ZCK_COMP_TYPE ? ZCK_COMP_NONE : o == ZCK_CHUNK_MAX ? 100000 : o == ZCK_CHUNK_MIN ? 10 : o == ZCK_ZSTD_COMP_LEVEL ? 3 : 1;
                               bool r = zck_set_ioption(z, (zck_ioption)o, v); how = "option " + std::to_string(o) + (r ? " (accepted)" : " (refused)") + " set on the read context before the lead; "; if (!r && zck_is_error(z) && !zck_clear_error(z)) ok = false; }
            bool opened = ok && zck_read_lead(z) && zck_read_header(z);
            if (!opened && ok && k >= 6) {          // ask again on the same context after clearing the error (lead again if that was what failed)
                if (zck_is_error(z) && zck_clear_error(z)) { lseek(fd4, 0, SEEK_SET); bool again = zck_read_header(z); if (!again && zck_is_error(z) && zck_clear_error(z)) { lseek(fd4, 0, SEEK_SET); again = zck_read_lead(z) && zck_read_header(z); }
                    if (again) { opened = true; how += "refused at first, accepted when asked again after zck_clear_error(); "; } } }
            zck_free(&z); close(fd4);
            if (opened) { c.extra_evals = evals; c.fail("altered-header-accepted-on-advanced-open", "header byte " + std::to_string(pos) + " was changed and the step-by-step open accepts the header: " + how + "(reference: " + pm.reason + ")"); }
        }
        c.label("advanced-open-variants");
    }
    // the two integers of the lead written in a different (longer, value-preserving) encoding, everything else - including the
    // stored checksum - left alone: the checksum covers the bytes, not the values, so none of these may open
    {
        ref::ParseResult pq = ref::parse(s.file); size_t ds0 = ref::digest_size(pq.h.hash_type); Bytes c1, c2; ref::ci_put(c1, pq.h.hash_type); ref::ci_put(c2, pq.h.header_length);
        Bytes o1(s.file.begin() + 5, s.file.begin() + 5 + 0), dummy; (void)o1; (void)dummy;
        // the sample's own encodings (may already be padded)
        size_t p = 5; ref::CiResult r1 = ref::ci_get(s.file.data() + p, s.file.size() - p); p += r1.length; ref::CiResult r2 = ref::ci_get(s.file.data() + p, s.file.size() - p);
        for (size_t l1 = c1.size(); l1 <= 10; l1++) for (size_t l2 = c2.size(); l2 <= 10; l2++) {
            if (l1 == r1.length && l2 == r2.length) continue;           // that is the sample itself
            Bytes m(s.file.begin(), s.file.begin() + 5); ref::ci_put_padded(m, pq.h.hash_type, l1); ref::ci_put_padded(m, pq.h.header_length, l2);
            m.insert(m.end(), s.file.begin() + pq.h.lead_size - ds0, s.file.end()); evals += 2;
            ref::ParseResult pr = ref::parse(m); if (pr.ok && pr.h.checksum_ok) continue;
            bool plain = lib_opens_bytes(m); int fd2 = lib::mkfd(m); lib::Pins pp = pins; pp.length = -1; bool pinned = lib_opens_pinned(fd2, pp); close(fd2);
            if (plain || pinned) { c.extra_evals = evals; c.fail(plain ? "reencoded-lead-accepted" : "reencoded-lead-accepted-under-pinning", "the lead's checksum-type / header-size integers were re-encoded in " + std::to_string(l1) + " / " + std::to_string(l2) + " bytes (same values, stored checksum untouched) and the file still opens" + (plain ? "" : " when the header checksum is pinned") + " (reference: " + pr.reason + ")"); }
        }
        c.label("reencoded-lead-integers");
    }
    // insertions / deletions inside the header proper, size field adjusted (lead re-encoded)
    ref::ParseResult p0 = ref::parse(s.file.size() && memcmp(s.file.data(), "\0ZHR1", 5) == 0 ? s.file : s.file);
    size_t lead = p0.h.lead_size; int ds = ref::digest_size(p0.h.hash_type);
    auto relead = [&](const Bytes &rest_and_body, uint64_t newlen) {
        Bytes f(s.file.begin(), s.file.begin() + 5); ref::ci_put(f, p0.h.hash_type); ref::ci_put(f, newlen);
        f.insert(f.end(), s.file.begin() + lead - ds, s.file.begin() + lead);     // keep the stored digest
        f.insert(f.end(), rest_and_body.begin(), rest_and_body.end()); return f;
    };
    Bytes rest(s.file.begin() + lead, s.file.end());
    size_t hl = p0.h.header_length; size_t step = hl > 300 ? 3 : 1;
    for (size_t pos = 0; pos <= hl; pos += step) {
        for (int v : {0x00, 0x80, 0x81, 0xff, (int)(pos * 37 % 256)}) {
            Bytes r2 = rest; r2.insert(r2.begin() + pos, (uint8_t)v); evals++;
            Bytes m = relead(r2, hl + 1);
            if (lib_opens_bytes(m)) { ref::ParseResult pr = ref::parse(m); if (!pr.ok || !pr.h.checksum_ok) { c.extra_evals = evals; c.fail("insert-accepted", "byte inserted at header offset " + std::to_string(pos) + " (size field adjusted) and the file still opens"); } }
        }
        if (pos < hl) {
            Bytes r2 = rest; r2.erase(r2.begin() + pos); evals++;
            Bytes m = relead(r2, hl - 1);
            if (lib_opens_bytes(m)) { ref::ParseResult pr = ref::parse(m); if (!pr.ok || !pr.h.checksum_ok) { c.extra_evals = evals; c.fail("delete-accepted", "byte deleted at header offset " + std::to_string(pos) + " (size field adjusted) and the file still opens"); } }
        }
    }
    c.extra_evals = evals; c.extra_distinct = evals; c.nontrivial();
}

PBT_MAIN("C06", prop, nullptr)
