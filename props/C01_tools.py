#!/opt/veriftools/pyvenv/bin/python3
"""C01 (tool level): zck / unzck round trip under every option combination, incl. split strings.

Hypothesis generates (input bytes, option set, descriptor state).  Inputs are built to put the
split string at chosen alignments relative to the tool's 32 KiB read blocks (offsets
32768*k + d, d in [-(|s|+1), +2]), to end in proper prefixes of the split string, and to contain
overlapping partial matches (s[0]+s).  Oracle: `zck` exit 0  =>  `zck_read_header -f` exit 0 and
`unzck` exit 0 and the output file equals the input; every tool invocation terminates within its
CPU limit.  The tools are the ASan/UBSan builds made from /repo's working tree.
Driver contract: --seed --tier --counters --proc --nproc --replaydir [--replay file.json]"""
import argparse, json, os, resource, shutil, subprocess, sys, hashlib, tempfile

ap = argparse.ArgumentParser()
ap.add_argument("--seed", type=int, default=1); ap.add_argument("--tier", default="quick"); ap.add_argument("--counters")
ap.add_argument("--proc", type=int, default=0); ap.add_argument("--nproc", type=int, default=1); ap.add_argument("--replaydir", default="replay-new")
ap.add_argument("--replay"); ap.add_argument("--cases", type=int, default=0)
A = ap.parse_args()

BUILD = os.environ.get("VERIF_BUILD", os.path.join(os.path.dirname(os.path.dirname(os.path.abspath(__file__))), "build"))
TOOLS = os.path.join(BUILD, "asan", "tools")
WORK = tempfile.mkdtemp(prefix="c01t-", dir="/dev/shm")
BLOCK = 32768
stats = {"evaluations": 0, "labels": {}, "samples": [], "distinct": set(), "failures": []}


def label(l):
    stats["labels"][l] = stats["labels"].get(l, 0) + 1


def limits():
    resource.setrlimit(resource.RLIMIT_CPU, (60, 62))


def run(cmd, cwd, close_stdin=False):
    def pre():
        limits()
        if close_stdin:
            os.close(0)
    p = subprocess.run(cmd, cwd=cwd, stdin=None if close_stdin else subprocess.DEVNULL, stdout=subprocess.PIPE, stderr=subprocess.PIPE, preexec_fn=pre)
    return p.returncode, p.stderr.decode("latin1")[-600:]


def build_input(case):
    b = bytearray(case["filler"] * (case["length"] // max(1, len(case["filler"])) + 1))[:case["length"]]
    s = case["split"].encode("latin1") if case["split"] else b""
    for (k, d, overlap) in case["placements"]:
        pos = BLOCK * k + d
        piece = (s[:1] + s) if overlap else s
        if pos < 0:
            continue
        if pos + len(piece) > len(b):
            b.extend(bytes(case["filler"][:1]) * (pos + len(piece) - len(b)))
        b[pos:pos + len(piece)] = piece
    if case["tail_prefix"] and s:
        b.extend(s[:case["tail_prefix"]])
    return bytes(b)


def check_case(case):
    """returns None or (sig, msg)"""
    d = os.path.join(WORK, "case")
    shutil.rmtree(d, ignore_errors=True)
    os.makedirs(d)
    data = build_input(case)
    open(os.path.join(d, "in.dat"), "wb").write(data)
    cmd = [os.path.join(TOOLS, "zck")]
    if case["split"]:
        cmd += ["-s", case["split"]]
    if case["manual"]:
        cmd += ["-m"]
    if case["hash"]:
        cmd += ["-h", case["hash"]]
    if case["uncomp"]:
        cmd += ["-u"]
    if case["comp"]:
        cmd += ["--compression-format", case["comp"]]
    if case["dict"]:
        open(os.path.join(d, "dict"), "wb").write(bytes(case["dict"]))
        cmd += ["-D", "dict"]
    outmode = case.get("outmode", 0)        # 0: -o out.zck; 1: no -o (zck names the archive after the input); 2: -o in a sub-directory
    arch = "out.zck"
    if outmode == 1:
        arch = "in.dat.zck"; cmd += ["in.dat"]
    elif outmode == 2:
        os.makedirs(os.path.join(d, "sub")); arch = "sub/o.zck"; cmd += ["-o", arch, "in.dat"]
    else:
        cmd += ["-o", arch, "in.dat"]
    cmd[1:1] = ["-v"] * case.get("verbose", 0)
    pieces = case.get("fifo")
    if pieces and outmode != 1:
        # the input arrives through a FIFO in pieces (each written only after the previous one was taken): a read that returns less
        # than a block is not the end of the input
        import fcntl, termios, struct, time
        os.unlink(os.path.join(d, "in.dat")); os.mkfifo(os.path.join(d, "in.dat")); label("input-through-fifo")
        ef = open(os.path.join(d, "zck.err"), "wb")        # not a pipe: nobody drains it while the input is being fed, and -v -v -v writes a lot
        p = subprocess.Popen(cmd, cwd=d, stdin=subprocess.DEVNULL, stdout=subprocess.DEVNULL, stderr=ef, preexec_fn=limits); ok = True
        try:
            fd = os.open(os.path.join(d, "in.dat"), os.O_WRONLY); off = 0; k = 0; buf = bytearray(4)
            while off < len(data) and ok:
                n = max(1, len(data) // 3000, min(pieces[k % len(pieces)], 60000)); k += 1; os.write(fd, data[off:off + n]); off += n; t0 = time.time()
                while True:
                    fcntl.ioctl(fd, termios.FIONREAD, buf)
                    if struct.unpack("i", bytes(buf))[0] == 0:
                        break
                    if p.poll() is not None or time.time() - t0 > 30:
                        ok = False; break
                    time.sleep(0.0002)
            os.close(fd)
        except BrokenPipeError:
            ok = False
        try:
            p.wait(timeout=120)
        except subprocess.TimeoutExpired:
            p.kill(); p.wait()
        ef.close(); rc, err = p.returncode, open(os.path.join(d, "zck.err"), "rb").read().decode("latin1")[-600:]
        if not ok and rc == 0:
            return ("lost-bytes", "zck exited 0 although it stopped reading its input (a FIFO fed in pieces %s) before the end" % pieces[:6])
    else:
        rc, err = run(cmd, d, case["close_stdin"])
    if rc in (-9, -24):
        return ("zck-hang", "zck did not terminate within 60 s of CPU time: %s" % " ".join(cmd[1:]))
    if rc != 0:
        label("zck-refuses" if rc > 0 and "Sanitizer" not in err else "zck-abnormal")
        if rc < 0 or rc == 77 or "Sanitizer" in err or "runtime error" in err:
            return ("zck-crash", "zck died (status %d): %s" % (rc, err[-300:]))
        # every generated option set is a supported configuration and every input a legal one: refusing it is not a round trip
        return ("zck-fails-on-legal-input", "zck exits %d on a legal input and option set (%s): %s" % (rc, " ".join(cmd[1:-1]), err[-200:]))
    label("zck-ok")
    if not os.path.exists(os.path.join(d, arch)):
        return ("archive-missing", "zck exited 0 but %s does not exist" % arch)
    rc, err = run([os.path.join(TOOLS, "zck_read_header"), "-f", arch], d)
    if rc != 0:
        return ("archive-fails-verification", "zck exited 0 but zck_read_header -f fails (status %d): %s" % (rc, err[-200:]))
    if case.get("to_stdout"):
        label("unzck-c")
        p = subprocess.run([os.path.join(TOOLS, "unzck"), "-c", arch], cwd=d, stdin=subprocess.DEVNULL, stdout=subprocess.PIPE, stderr=subprocess.PIPE, preexec_fn=limits)
        rc, err, out = p.returncode, p.stderr.decode("latin1")[-600:], p.stdout
    else:
        rc, err = run([os.path.join(TOOLS, "unzck")] + ["-v"] * case.get("verbose", 0) + [arch], d, case["close_stdin"])
        out = None
    if rc != 0:
        return ("unzck-fails", "zck exited 0 but unzck fails on its output (status %d): %s" % (rc, err[-200:]))
    if out is None:
        # unzck writes next to the working directory, named after the archive without its .zck suffix
        oname = os.path.basename(arch)[:-4]
        if not os.path.exists(os.path.join(d, oname)):
            return ("output-missing", "unzck exited 0 but %s does not exist" % oname)
        out = open(os.path.join(d, oname), "rb").read()
    if out != data:
        i = 0
        while i < len(out) and i < len(data) and out[i] == data[i]:
            i += 1
        return ("lost-bytes" if len(out) < len(data) else "extra-bytes" if len(out) > len(data) else "changed-bytes",
                "round trip through zck/unzck returns %d bytes, input has %d; first difference at %d (block offset %d)" % (len(out), len(data), i, i % BLOCK))
    return None


def describe(case):
    return "len=%d split=%r placements=%s tail_prefix=%d manual=%s hash=%s uncomp=%s comp=%s dict=%d close_stdin=%s" % (
        len(build_input(case)), case["split"], case["placements"], case["tail_prefix"], case["manual"], case["hash"], case["uncomp"], case["comp"], len(case["dict"] or []), case["close_stdin"])


def write_replay(case, sig, msg):
    d = os.path.join(A.replaydir, "C01")
    os.makedirs(d, exist_ok=True)
    h = hashlib.sha1(json.dumps(case, sort_keys=True).encode()).hexdigest()[:16]
    p = os.path.join(d, h + ".json")
    json.dump({"property": "C01", "sig": sig, "msg": msg, "desc": describe(case), "case": case}, open(p, "w"), indent=1)
    return p


def finish(rc):
    if A.counters:
        json.dump({"property": "C01", "seed": A.seed, "evaluations": stats["evaluations"], "inner_evaluations": 0, "discards": 0, "known_hits": 0,
                   "distinct_by_construction": 0, "exhaustive": False, "exhaustive_note": "", "labels": stats["labels"], "samples": stats["samples"][:8],
                   "failures": stats["failures"], "distinct": sorted(stats["distinct"])}, open(A.counters, "w"))
    shutil.rmtree(WORK, ignore_errors=True)
    sys.exit(rc)


if A.replay:
    case = json.load(open(A.replay))["case"]
    r = check_case(case)
    if r:
        print("REPLAY-FAIL property=C01 file=%s sig=%s msg=%s" % (A.replay, r[0], r[1]))
        stats["failures"].append({"sig": r[0], "msg": r[1], "replay": A.replay, "known": False})
        finish(1)
    print("REPLAY-PASS property=C01 file=%s" % A.replay)
    finish(0)

from hypothesis import given, settings, seed, strategies as st, HealthCheck, Phase  # noqa: E402

SPLITS = ["<text:", "ab", "aab", "\n", "<<t", "x", "abcabd", "--"]


@st.composite
def cases(draw):
    split = draw(st.one_of(st.none(), st.sampled_from(SPLITS), st.text(alphabet="ab<:\nxyz-", min_size=1, max_size=6)))
    s = split or "<text:"
    filler_kind = draw(st.integers(0, 3))
    if filler_kind == 0:
        filler = list(draw(st.binary(min_size=1, max_size=40)))
    elif filler_kind == 1:
        filler = [ord(ch) for ch in s[:-1]] or [120]            # filler made of a proper prefix of the split string: constant partial matches
    elif filler_kind == 2:
        filler = list(draw(st.binary(min_size=200, max_size=3000)))
    else:
        filler = [ord(draw(st.sampled_from(list("abxyz\n< "))))]
    length = draw(st.one_of(st.integers(0, 300), st.integers(BLOCK - 10, BLOCK + 10), st.integers(2 * BLOCK - 10, 2 * BLOCK + 10), st.integers(0, 4 * BLOCK)))
    placements = draw(st.lists(st.tuples(st.integers(0, 3), st.integers(-(len(s) + 1), 2), st.booleans()), max_size=5)) if split else []
    tail = draw(st.integers(0, len(s) - 1)) if split and draw(st.booleans()) else 0
    fifo = draw(st.one_of(st.none(), st.none(), st.none(), st.lists(st.sampled_from([1, 100, 4095, 4096, 10000, 32767, 32768, 32769, 50000]), min_size=1, max_size=4), st.lists(st.integers(1, 40000), min_size=1, max_size=3)))
    return {"fifo": fifo, "split": split, "filler": filler, "length": length, "placements": [list(p) for p in placements], "tail_prefix": tail,
            "manual": draw(st.booleans()), "hash": draw(st.sampled_from([None, None, "sha256", "sha512", "sha512_128"])), "uncomp": draw(st.integers(0, 4)) == 0,
            "comp": draw(st.sampled_from([None, "zstd", "none"])), "dict": list(draw(st.binary(min_size=1, max_size=400))) if draw(st.integers(0, 4)) == 0 else None,
            "close_stdin": draw(st.integers(0, 4)) == 0, "outmode": draw(st.sampled_from([0, 0, 1, 2])), "to_stdout": draw(st.integers(0, 3)) == 0,
            "verbose": draw(st.sampled_from([0, 0, 0, 1, 3]))}


N = A.cases or (60 if A.tier == "quick" else 1200)
failure = []


@seed(A.seed)
@settings(max_examples=N, database=None, deadline=None, report_multiple_bugs=False, suppress_health_check=list(HealthCheck), phases=[Phase.generate, Phase.shrink])
@given(cases())
def prop(case):
    stats["evaluations"] += 1
    key = int(hashlib.sha1(json.dumps(case, sort_keys=True).encode()).hexdigest()[:15], 16)
    nontrivial = bool(case["split"]) or case["manual"] or case["hash"] or case["uncomp"] or case["comp"] or case["dict"] or case["close_stdin"]
    if nontrivial:
        stats["distinct"].add(key)
    if case["split"]:
        label("split-string")
    if case["placements"]:
        label("placed-at-block-edge")
    if case["tail_prefix"]:
        label("ends-in-prefix")
    if len(stats["samples"]) < 8:
        stats["samples"].append(describe(case))
    r = check_case(case)
    if r:
        failure[:] = [(case, r)]
        raise AssertionError(r[0] + ": " + r[1])


try:
    prop()
except AssertionError:
    case, (sig, msg) = failure[0]
    # confirm (3 replays) before believing it
    conf = sum(1 for _ in range(3) if check_case(case))
    if conf >= 2:
        p = write_replay(case, sig, msg)
        stats["failures"].append({"sig": sig, "msg": msg + " [" + describe(case) + "]", "replay": p, "known": False})
        print("FAILURE property=C01 sig=%s replay=%s msg=%s" % (sig, p, msg))
        finish(1)
    label("unreproducible-" + sig)
finish(0)
