// C09  Validity scan classifies every chunk exactly and is side-effect free.
//
// Generated: a valid file B (with/without dictionary, uncompressed-source flag, none/zstd,
// duplicate chunks) -> an on-disk state derived from it: per chunk {intact, zeroed, garbage,
// partially written}, truncation at any length (chunks partly or wholly beyond EOF, incl. the
// cut exactly between two identical chunks), over-long file, optionally a re-sealed header with
// a wrong whole-data checksum, optionally presented as a detached header -> a sequence over
// {zck_validate_checksums, zck_find_valid_chunks, zck_validate_data_checksum} followed by a
// read to the end + close (and validations again after the read).
// Oracle (reference recomputation over the bytes actually present):
//   after each scan: chunk flag == +1 iff the extent lies inside the file and hashes to the
//   index digest (empty dictionary: valid), -1 otherwise; if all chunks match but the data
//   checksum does not: all -1; detached header: only the dictionary is examined;
//   return value 1 iff everything matches, otherwise not 1;
//   zck_validate_data_checksum returns 1 iff the data checksum over complete extents matches;
//   file bytes and size unchanged; the final read returns the same bytes / results as a fresh
//   context that did no validation.
#include "pbt/pbt.hpp"
#include "ref/zckref.hpp"
#include "lib/zcklib.hpp"
#include "gen/gens.hpp"
#include "lib/tools.hpp"

using pbt::Ctx; using pbt::Bytes;

static void prop(Ctx &c) {
    gen::ZFileOpts o; o.max_chunks = 8; o.max_chunk = c.tier ? 40000 : 3000; o.allow_empty = c.rarely(10); o.big_rate = 5; o.big_huge = c.tier != 0;
    if (c.rarely(3)) o.max_chunk = 70000;            // chunks larger than the scan's 32 KiB buffer
    gen::ZFile z = gen::zfile(c, o);
    ref::Header h = z.h; size_t n = h.entries.size();
    Bytes T = z.file; std::ostringstream dmg;
    bool detached = c.rarely(6);
    bool bad_data_digest = !detached && !(h.flags & 4) && c.rarely(5);
    if (bad_data_digest) { ref::Header h2 = h; h2.data_digest[c.pick(h2.data_digest.size())] ^= 0x40; Bytes hd = ref::emit_header(h2); if (hd.size() == h.total_size) { memcpy(T.data(), hd.data(), hd.size()); h = h2; dmg << "data-digest-wrong "; } else bad_data_digest = false; }
    // per-chunk damage
    for (size_t i = 0; i < n; i++) {
        size_t off = z.off(i), cl = z.clen(i); if (cl == 0) continue;
        uint64_t k = c.draw(9);
        if (k <= 4) continue;                                                  // intact
        if (k == 5) { std::fill(T.begin() + off, T.begin() + off + cl, 0); dmg << "c" << i << "=zeroed "; }
        else if (k == 6) { for (size_t j = 0; j < cl; j++) T[off + j] = (uint8_t)(T[off + j] * 31 + j + 1 + k); dmg << "c" << i << "=garbage "; }
        else if (k == 7) { size_t keep = c.draw(cl - 1); std::fill(T.begin() + off + keep, T.begin() + off + cl, 0); dmg << "c" << i << "=partial(" << keep << "/" << cl << ") "; }
        else { size_t p = c.pick(cl); T[off + p] ^= (uint8_t)(1u << c.draw(7)); dmg << "c" << i << "=bitflip "; }
    }
    // length
    {
        uint64_t k = c.draw(7);
        if (k == 0 && n > 1) { size_t i = 1 + c.pick(n - 1); T.resize(z.off(i)); dmg << "truncated-before-c" << i << " "; }     // exactly at a chunk boundary
        else if (k == 1) { size_t body = T.size() - h.total_size; size_t keep = h.total_size + (body ? c.draw(body) : 0); T.resize(keep); dmg << "truncated-to-" << keep << " "; }
        else if (k == 2) { Bytes g = c.bytes(1 + c.draw(50)); T.insert(T.end(), g.begin(), g.end()); dmg << "over-long "; }
        else if (k == 3) { T.resize(h.total_size); dmg << "header-only "; }
    }
    if (detached) { memcpy(T.data(), "\0ZHR1", 5); size_t keep = h.total_size + (c.boolean() ? z.clen(0) : 0); if (T.size() > keep) T.resize(keep); dmg << "detached-header "; }
    // operation sequence
    std::vector<int> ops; size_t no = 1 + c.draw(4); for (size_t i = 0; i < no; i++) ops.push_back((int)c.draw(2));
    bool validate_after = c.rarely(3);
    std::vector<size_t> rs = gen::rhistory(c);
    if (z.D.size() > 30000) for (auto &x : rs) if (x < 512) x += 512;      // tiny reads of a large file are quadratic in the library
    c.desc << z.desc << " state{" << dmg.str() << "} ops=";
    for (int op : ops) c.desc << (op == 0 ? "validate_checksums " : op == 1 ? "find_valid_chunks " : "validate_data_checksum ");
    c.desc << "then read(" << gen::sizes_str(rs) << ")" << (validate_after ? " then validate again" : "");

    // ---- reference expectation (recomputed when the file is changed between two scans)
    std::vector<int> expect(n, -1); bool all_good = true; size_t intact = 0, damaged = 0; bool cut_inside = false; bool data_ok = true; int expect_ret = -1;
    auto compute_expect = [&]() {
    expect.assign(n, -1); all_good = true; intact = 0; damaged = 0; cut_inside = false;
    for (size_t i = 0; i < n; i++) {
        size_t off = z.off(i), cl = z.clen(i);
        if (i == 0 && h.entries[0].len == 0 && cl == 0) { expect[i] = 1; continue; }
        bool inside = off + cl <= T.size();
        if (!inside && off < T.size()) cut_inside = true;
        bool ok = inside && (cl == 0 ? h.entries[i].digest == Bytes(h.entries[i].digest.size(), 0) : ref::digest((int)h.chunk_hash_type, T.data() + off, cl) == h.entries[i].digest);
        expect[i] = ok ? 1 : -1; if (ok) intact++; else { damaged++; all_good = false; }
        if (detached) break;
    }
    data_ok = true; bool complete = h.total_size + (size_t)h.data_length <= T.size();
    if (!(h.flags & 4) && !detached) data_ok = complete && ref::digest((int)h.hash_type, T.data() + h.total_size, (size_t)h.data_length) == h.data_digest;
    expect_ret = -1;
    if (detached) { all_good = expect[0] == 1; expect_ret = all_good ? 1 : -1; }
    else if (h.flags & 4) expect_ret = all_good ? 1 : -1;
    else if (all_good) { expect_ret = data_ok ? 1 : -1; if (!data_ok) for (auto &e : expect) e = -1; }
    };
    compute_expect();
    if ((intact && damaged) || cut_inside) c.nontrivial();
    c.label(detached ? "detached" : "full"); if (cut_inside) c.label("cut-inside-chunk"); if (intact && damaged) c.label("mixed-intact-damaged"); if (expect_ret == 1) c.label("all-valid");
    if (bad_data_digest && all_good) c.label("only-data-digest-wrong");

    // ---- fresh-context baseline for the final read
    lib::RResult base = lib::read_file(T, rs, (size_t)64 << 20);

    int fd = lib::mkfd(T); zckCtx *ctx = zck_create();
    if (!zck_init_read(ctx, fd)) { std::string e = zck_get_error(ctx); zck_free(&ctx); close(fd); if (base.open_ok) c.fail("open-flaky", "second open of the same bytes failed: " + e); c.label("open-refused"); return; }
    auto flags = [&]() { std::vector<int> v; for (zckChunk *ch = zck_get_first_chunk(ctx); ch; ch = zck_get_next_chunk(ch)) v.push_back(zck_get_chunk_valid(ch)); return v; };
    auto vstr = [](const std::vector<int> &v) { std::string s; for (int x : v) s += x == 1 ? "+" : x == -1 ? "-" : "0"; return s; };
    std::string fsig, fmsg;
    auto run_op = [&](int op, const char *when) {
        std::vector<int> before = flags();
        int r = op == 0 ? zck_validate_checksums(ctx) : op == 1 ? zck_find_valid_chunks(ctx) : zck_validate_data_checksum(ctx);
        std::vector<int> after = flags();
        const char *name = op == 0 ? "zck_validate_checksums" : op == 1 ? "zck_find_valid_chunks" : "zck_validate_data_checksum";
        bool is_scan = op != 2 || (h.flags & 4);
        if (is_scan) {
            std::vector<int> want = expect; if (detached) for (size_t i = 1; i < n; i++) want[i] = before[i];
            if (after != want) { fsig = "chunk-flags"; fmsg = std::string(name) + " (" + when + ") marked chunks " + vstr(after) + ", the bytes on disk give " + vstr(want); return; }
            if ((r == 1) != (expect_ret == 1)) { fsig = "scan-result"; fmsg = std::string(name) + " (" + when + ") returned " + std::to_string(r) + ", expected " + std::to_string(expect_ret); return; }
        } else {
            bool want1 = data_ok;
            if (detached) { /* a detached header has no data section: the property says nothing about this call */ }
            else if ((r == 1) != want1) { fsig = "data-checksum-result"; fmsg = std::string(name) + " (" + when + ") returned " + std::to_string(r) + (want1 ? ", but the data checksum matches" : ", but the data checksum does not match / the file is incomplete"); return; }
            if (after != before) { fsig = "data-checksum-touched-flags"; fmsg = std::string(name) + " changed chunk flags from " + vstr(before) + " to " + vstr(after); return; }
        }
        if (lib::fd_bytes(fd) != T) { fsig = "file-modified"; fmsg = std::string(name) + " modified the file"; }
    };
    // flags the context already carries when the scan starts must not matter: chunks paired with an intact copy by
    // zck_find_matching_chunks() are marked valid without a look at the target's bytes - the scan decides from the bytes
    if (c.gver >= 4 && !detached && c.rarely(4)) { int sfd = lib::mkfd(z.file); zckCtx *src = zck_create(); if (zck_init_read(src, sfd)) { (void)!zck_find_matching_chunks(src, ctx); c.label("flags-preset-by-matching"); } zck_free(&src); close(sfd); if (zck_is_error(ctx)) (void)!zck_clear_error(ctx); }
    for (int op : ops) { run_op(op, "before the read"); if (!fsig.empty()) break; }
    // the file changes between two scans on the same context (another chunk is damaged in place): the second scan reports the new state
    if (c.gver >= 4 && fsig.empty() && !detached && c.rarely(3)) {
        std::vector<size_t> ok_chunks; for (size_t i = 0; i < n; i++) if (z.clen(i) && z.off(i) + z.clen(i) <= T.size() && ref::digest((int)h.chunk_hash_type, T.data() + z.off(i), z.clen(i)) == h.entries[i].digest) ok_chunks.push_back(i);
        if (!ok_chunks.empty()) { size_t i = ok_chunks[c.pick(ok_chunks.size())]; size_t pos = z.off(i) + c.pick(z.clen(i)); T[pos] ^= (uint8_t)(1u << c.draw(7)); if (pwrite(fd, &T[pos], 1, pos) != 1) abort();
            compute_expect(); base = lib::read_file(T, rs, (size_t)64 << 20); if (zck_is_error(ctx)) (void)!zck_clear_error(ctx);
            c.label("damaged-between-scans"); c.desc << " ; chunk " << i << " damaged in place, then another scan";
            run_op(c.boolean() ? 0 : 1, "after the file was changed"); }
    }
    // a validation that fails leaves an error message on the context; a caller that goes on to read clears it first.
    // Only when that is impossible (fatal state) is the content delivered before a failing read not comparable.
    bool sticky = false; if (fsig.empty() && zck_is_error(ctx)) { sticky = !zck_clear_error(ctx); c.label(sticky ? "fatal-error-after-validation" : "error-cleared-before-read"); }
    if (fsig.empty()) {
        // full read on the same context; compare with the baseline
        lib::RResult rr; rr.open_ok = true; rr.read_ok = true; std::vector<char> buf; size_t k = 0;
        for (;;) { size_t nn = rs[k++ % rs.size()]; if (!nn) nn = 1; if (buf.size() < nn) buf.resize(nn); ssize_t g = zck_read(ctx, buf.data(), nn);
                   if (g < 0) { rr.read_ok = false; break; } if (g == 0) break; rr.data.insert(rr.data.end(), buf.data(), buf.data() + g); if (rr.data.size() > ((size_t)64 << 20)) { rr.read_ok = false; break; } }
        if (rr.read_ok) rr.close_ok = zck_close(ctx);
        // the content delivered before a failing read is compared too, unless the validations left a fatal error behind
        if (rr.read_ok != base.read_ok || rr.close_ok != base.close_ok || ((base.read_ok || !sticky) && rr.data != base.data)) {
            fsig = "read-depends-on-validation";
            fmsg = "after the validations the read gave (read_ok=" + std::to_string(rr.read_ok) + ", close_ok=" + std::to_string(rr.close_ok) + ", " + std::to_string(rr.data.size()) + " bytes), a fresh context gives (read_ok=" +
                   std::to_string(base.read_ok) + ", close_ok=" + std::to_string(base.close_ok) + ", " + std::to_string(base.data.size()) + " bytes)";
        }
        if (fsig.empty() && validate_after && rr.read_ok && !zck_is_error(ctx)) run_op((int)(ops[0]), "after the read");
    }
    zck_free(&ctx); close(fd);
    if (!fsig.empty()) c.fail(fsig, fmsg);
    // ---- the command-line front end of the scan: `zck_read_header --verify` under every combination of its other options must
    // report overall success (exit status 0) exactly when the scan does, and its per-chunk markers (-c) must be the scan's flags
    if (c.gver >= 4 && !tools::tool_path("zck_read_header").empty() && c.rarely(16)) {
        std::vector<std::string> args; std::string shown; bool q = c.boolean(), sc = c.boolean(); size_t nv = c.rarely(3) ? 1 + c.draw(3) : 0;
        if (c.boolean()) { std::string o = "-"; if (q) o += "q"; for (size_t i = 0; i < nv; i++) o += "v"; o += "f"; if (sc) o += "c"; args.push_back(o); }
        else { if (q) args.push_back(c.boolean() ? "-q" : "--quiet"); for (size_t i = 0; i < nv; i++) args.push_back("-v"); args.push_back(c.boolean() ? "-f" : "--verify"); if (sc) args.push_back(c.boolean() ? "-c" : "--show-chunks"); if (c.boolean()) std::reverse(args.begin(), args.end()); }
        for (auto &a : args) shown += a + " "; args.push_back("t.zck");
        tools::Dir d("c09"); d.put("t.zck", T); tools::Run r = tools::run(tools::tool_path("zck_read_header"), args, d.path);
        c.label("tool:zck_read_header"); c.desc << " ; zck_read_header " << shown;
        if (r.exit_code == 126) c.fail("tool-missing", "cannot run " + tools::tool_path("zck_read_header"));
        if (r.abnormal()) { c.label("tool-abnormal-termination(C03's business)"); return; }
        if ((r.exit_code == 0) != (expect_ret == 1)) c.fail("tool-verdict", "zck_read_header " + shown + "exits " + std::to_string(r.exit_code) + " on a target whose scan " + (expect_ret == 1 ? "finds every checksum matching" : "does not succeed (chunks on disk: " + vstr(expect) + ")"));
        if (sc) {       // chunk lines: "<number> <digest> [<udigest>] <start> <comp size> <size>[  +|  !]"
            std::vector<int> marks; size_t p = 0; bool table = false;
            while (p < r.out.size()) { size_t e = r.out.find('\n', p); if (e == std::string::npos) e = r.out.size(); std::string line = r.out.substr(p, e - p); p = e + 1;
                if (line.find("Chunk Checksum") != std::string::npos) { table = true; continue; } if (!table || line.empty() || line.find("checksums") != std::string::npos) continue;
                marks.push_back(line.size() >= 3 && line.compare(line.size() - 3, 3, "  +") == 0 ? 1 : line.size() >= 3 && line.compare(line.size() - 3, 3, "  !") == 0 ? -1 : 0); }
            std::vector<int> want = expect; if (detached) for (size_t i = 1; i < n; i++) want[i] = 0;
            if (marks.size() == n && marks != want) c.fail("tool-chunk-marks", "zck_read_header " + shown + "marks the chunks " + vstr(marks) + ", the bytes on disk give " + vstr(want));
            if (marks.size() == n) c.label("tool-chunk-marks-compared");
        }
    }
}

PBT_MAIN("C09", prop, nullptr)
