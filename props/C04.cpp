// C04  Delta update reconstructs the new file exactly, fetching only what is missing.
//
// Generated: a pair (A, B) - B a chunk list, A derived from it by chunk-level edits (replace /
// insert / delete / reorder; or A unrelated, A == B, A absent, A with another dictionary, hash
// type or compression) - an initial target (absent, empty, A's bytes, garbage, B with a damage
// pattern, longer than B, B itself), a range limit (zckdl's ladder 255/127/7/2/1 starting
// anywhere, or a fixed limit incl. -1/1/2/3/7), a server that accepts at most K ranges per
// request (answering 200 otherwise), a multipart style and a fragmentation of every response.
// The documented update procedure (gen/dl.hpp: call-for-call mirror of zckdl main) runs on it.
// Oracle: the procedure terminates, every round strictly reduces the number of missing chunks,
// the target is byte-identical to B, zck_validate_data_checksum()==1, nothing is missing; and
// the multiset of body bytes requested over all rounds (206 answers) equals exactly the stored
// extents of those chunks of B that the reference finds neither intact in the initial target nor
// present in A with equal digest, stored size and size - nothing twice, nothing from the header.
#include "pbt/pbt.hpp"
#include "ref/zckref.hpp"
#include "lib/zcklib.hpp"
#include "gen/gens.hpp"
#include "gen/dl.hpp"

using pbt::Ctx; using pbt::Bytes;

static void prop(Ctx &c) {
    gen::ZFileOpts o; o.max_chunks = c.tier ? 40 : 16; o.max_chunk = c.tier ? 6000 : 1200; o.allow_empty = c.rarely(12); o.big_rate = 12;
    gen::ZParams qb = gen::zparams(c, o);
    gen::ZFile B = gen::zfile_build(c, qb);
    // ---- A
    uint64_t akind = c.draw(7); bool haveA = akind != 0; gen::ZFile A; std::string adesc = "absent";
    if (haveA) {
        gen::ZParams qa = qb; qa.by_ref = false;
        if (akind == 1) adesc = "identical";
        else if (akind == 2) { gen::ZFileOpts o2 = o; qa = gen::zparams(c, o2); adesc = "unrelated"; }
        else {
            adesc = "edited:";
            size_t ne = 1 + c.draw(3);
            for (size_t e = 0; e < ne; e++) {
                uint64_t k = c.draw(3);
                if (k == 0 && !qa.chunks.empty()) { size_t i = c.pick(qa.chunks.size()); qa.chunks[i] = gen::chunk_content(c, o.max_chunk); adesc += " replace" + std::to_string(i); }
                else if (k == 1) { size_t i = c.draw(qa.chunks.size()); qa.chunks.insert(qa.chunks.begin() + i, gen::chunk_content(c, o.max_chunk)); adesc += " insert" + std::to_string(i); }
                else if (k == 2 && !qa.chunks.empty()) { size_t i = c.pick(qa.chunks.size()); qa.chunks.erase(qa.chunks.begin() + i); adesc += " delete" + std::to_string(i); }
                else if (qa.chunks.size() >= 2) { size_t i = c.pick(qa.chunks.size()), j = c.pick(qa.chunks.size()); std::swap(qa.chunks[i], qa.chunks[j]); adesc += " swap"; }
            }
            if (c.rarely(8)) { qa.dict = Bytes(50, 'x'); adesc += " other-dict"; }
            if (c.rarely(8)) { qa.chunk_hash = qa.chunk_hash == 1 ? 2 : 1; adesc += " other-chunk-hash"; }
            if (c.rarely(8)) { qa.comp = qa.comp == ZCK_COMP_ZSTD ? ZCK_COMP_NONE : ZCK_COMP_ZSTD; adesc += " other-compression"; }
        }
        // the old file written with another overall (header/data) checksum type: chunk checksums, and so reuse, are unaffected
        if (c.gver >= 4 && akind != 2 && c.rarely(4)) { int cur = qa.full_hash < 0 ? 1 : qa.full_hash; qa.full_hash = (cur + 1 + (int)c.draw(2)) % 4; adesc += " other-full-hash"; }
        A = gen::zfile_build(c, qa);
    }
    // ---- initial target
    Bytes T0; std::string tdesc; size_t n = B.nchunks();
    switch (c.draw(6)) {
    case 0: tdesc = "absent/empty"; break;
    case 1: if (haveA) { T0 = A.file; tdesc = "A's bytes"; } else tdesc = "absent/empty"; break;
    case 2: T0 = c.bytes(c.skewed(5000)); tdesc = "garbage[" + std::to_string(T0.size()) + "]"; break;
    case 3: case 4: { T0 = B.file; tdesc = "B damaged:"; for (size_t i = 0; i < n; i++) if (B.clen(i) && c.boolean()) { size_t off = B.off(i), cl = B.clen(i); uint64_t k = c.draw(2);
                      if (k == 0) std::fill(T0.begin() + off, T0.begin() + off + cl, 0); else if (k == 1) T0[off + c.pick(cl)] ^= 0x10; else std::fill(T0.begin() + off + c.draw(cl - 1), T0.begin() + off + cl, 0xee); tdesc += " c" + std::to_string(i); }
                      if (c.rarely(3) && T0.size() > B.h.total_size) { T0.resize(B.h.total_size + c.draw(T0.size() - B.h.total_size)); tdesc += " truncated"; } break; }
    case 5: { T0 = B.file; Bytes g = c.bytes(1 + c.draw(300)); T0.insert(T0.end(), g.begin(), g.end()); tdesc = "B + trailing bytes"; break; }
    default: T0 = B.file; tdesc = "B itself"; break;
    }
    // ---- limits, server, fragmentation
    dl::Server srv; srv.file = B.file; srv.style = dl::gen_style(c, true);
    static const int srvmax[] = {1, 2, 7, 127, 1000000, 1000000}; srv.max_ranges = srvmax[c.pick(6)];
    dl::UpdateCfg cfg; if (haveA) cfg.A = &A.file;
    if (c.boolean()) cfg.first_limit_index = (int)c.draw(4);
    else { static const int fl[] = {-1, 1, 2, 3, 7, 0}; cfg.fixed_limit = fl[c.pick(6)]; if (cfg.fixed_limit == -1 || cfg.fixed_limit > srv.max_ranges) srv.max_ranges = 1000000; }
    uint64_t cutseed = c.draw(0xffffff); uint64_t cutstyle = c.draw(6);
    cfg.cutter = [&](size_t len) {
        std::vector<size_t> cuts; if (len < 2) return cuts; pbt::Rng r(cutseed ^ len);
        static const size_t steps[] = {1, 3, 5, 7, 13, 64, 16384};
        if (cutstyle == 0) return cuts;
        if (cutstyle == 1) { for (size_t p = 1; p < len && p < 4000; p++) cuts.push_back(p); return cuts; }
        if (cutstyle == 2) { size_t st = steps[r.below(7)]; for (size_t p = st; p < len && cuts.size() < 5000; p += st) cuts.push_back(p); return cuts; }
        size_t k = 1 + r.below(cutstyle == 3 ? 3 : 40); for (size_t i = 0; i < k; i++) cuts.push_back(1 + r.below(len - 1)); std::sort(cuts.begin(), cuts.end()); return cuts;
    };
    c.desc << "B{" << B.desc << "} A=" << adesc << " target0=" << tdesc << " limit=" << (cfg.fixed_limit != -2 ? "fixed " + std::to_string(cfg.fixed_limit) : "ladder from " + std::to_string(dl::range_attempt[cfg.first_limit_index]))
           << " server-max-ranges=" << srv.max_ranges << " style{" << srv.style.str() << "} cutstyle=" << cutstyle;
    c.checkpoint();

    // ---- reference expectation: which chunks must be fetched
    // the header phase writes B's first max(min-download-size, header length) bytes into the target (for a tiny B that includes body bytes)
    Bytes T1 = T0; { size_t hp = std::min<size_t>(std::max<size_t>((size_t)zck_get_min_download_size(), B.h.total_size), B.file.size()); if (T1.size() < hp) T1.resize(hp); memcpy(T1.data(), B.file.data(), hp); }
    std::vector<bool> need(n, false); size_t reused_target = 0, reused_A = 0, fetched = 0;
    ref::Header ha; if (haveA) ha = A.h;
    for (size_t i = 0; i < n; i++) {
        size_t off = B.off(i), cl = B.clen(i);
        if (cl == 0) continue;                                   // empty dictionary: nothing to fetch
        bool in_t = off + cl <= T1.size() && ref::digest((int)B.h.chunk_hash_type, T1.data() + off, cl) == B.h.entries[i].digest;
        bool in_a = false;
        if (haveA && !in_t) for (auto &e : ha.entries) if (e.digest == B.h.entries[i].digest && e.comp_len == B.h.entries[i].comp_len && e.len == B.h.entries[i].len) in_a = true;
        if (in_t) reused_target++; else if (in_a) reused_A++; else { need[i] = true; fetched++; }
    }
    // all chunks present but (non flag-4) the data checksum can still only match if the bytes are B's: they are.
    int tfd = lib::mkfd(T0, "target");
    dl::UpdateResult R = dl::run_update(srv, tfd, cfg);
    close(tfd);
    c.label(haveA ? "A:" + adesc.substr(0, adesc.find(':')) : "A:absent"); c.label("t0:" + tdesc.substr(0, tdesc.find_first_of(":[")));
    bool multipart = false; for (auto &rq : R.requested) if (rq.find(',') != std::string::npos) multipart = true;
    if (multipart) c.label("multipart"); if (fetched && (reused_A || reused_target)) c.label("reuse+fetch");
    if ((reused_A || reused_target) && fetched && multipart) c.nontrivial();
    if (!R.ok) c.fail(R.stage <= 1 ? "header-phase" : R.stage == 2 ? "scan-phase" : R.stage == 3 ? "fetch-phase" : "final-validation", "update procedure failed at stage " + std::to_string(R.stage) + ": " + R.err);
    if (R.target != B.file) { size_t i = 0; while (i < R.target.size() && i < B.file.size() && R.target[i] == B.file[i]) i++;
        c.fail("target-differs", "final target has " + std::to_string(R.target.size()) + " bytes, B has " + std::to_string(B.file.size()) + "; first difference at " + std::to_string(i)); }
    if (R.final_missing != 0) c.fail("still-missing", std::to_string(R.final_missing) + " chunks still missing after a successful update");
    for (size_t i = 1; i < R.missing_before.size(); i++) if (R.missing_before[i] >= R.missing_before[i - 1]) c.fail("no-progress", "a request round did not reduce the number of missing chunks (" + std::to_string(R.missing_before[i - 1]) + " -> " + std::to_string(R.missing_before[i]) + ")");
    // requested bytes == extents that had to be fetched
    std::vector<dl::Range> want; for (size_t i = 0; i < n; i++) if (need[i]) { uint64_t s = B.off(i), e = s + B.clen(i) - 1; if (!want.empty() && want.back().e + 1 == s) want.back().e = e; else want.push_back({s, e}); }
    std::vector<dl::Range> got;
    for (auto &rq : R.requested) { std::vector<dl::Range> v; if (!dl::parse_ranges(rq, v)) c.fail("bad-range-string", "malformed range string: " + rq.substr(0, 100)); got.insert(got.end(), v.begin(), v.end()); }
    std::sort(got.begin(), got.end(), [](const dl::Range &a, const dl::Range &b) { return a.s < b.s; });
    std::vector<dl::Range> gm; uint64_t got_bytes = 0;
    for (auto &g : got) { got_bytes += g.e - g.s + 1; if (!gm.empty() && g.s <= gm.back().e) c.fail("fetched-twice", "bytes " + std::to_string(g.s) + "-" + std::to_string(std::min(g.e, gm.back().e)) + " were requested more than once");
                          if (!gm.empty() && gm.back().e + 1 == g.s) gm.back().e = g.e; else gm.push_back(g); }
    auto rstr = [](const std::vector<dl::Range> &v) { std::string s; for (auto &x : v) s += std::to_string(x.s) + "-" + std::to_string(x.e) + ","; return s.substr(0, 400); };
    bool same = gm.size() == want.size(); for (size_t i = 0; same && i < gm.size(); i++) same = gm[i].s == want[i].s && gm[i].e == want[i].e;
    if (!same) c.fail(gm.size() && gm[0].s < B.h.total_size ? "header-bytes-requested" : "fetch-set", "body bytes requested {" + rstr(gm) + "} differ from the stored extents of the chunks that are neither valid in the target nor available in A {" + rstr(want) + "}");
    c.desc << " rounds=" << R.rounds << " fetched-chunks=" << fetched << " reused(target)=" << reused_target << " reused(A)=" << reused_A;
}

PBT_MAIN("C04", prop, nullptr)
