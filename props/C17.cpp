// C17  Memory safety and clean failure on arbitrary server responses.
//
// Generated: a target (B's header + validity pattern, flags through scan + reset) with a
// missing-range request; response header lines = arbitrary bytes or Content-Type lines with a
// fuzzed boundary parameter (regex metacharacters, quotes, empty, 16 KiB long, missing CR, NUL
// bytes, several boundary lines); response body = (a) the correct response with byte-level
// mutations, (b) structured parts with fuzzed boundary lines, content-range numbers (inverted,
// 20 digits, missing), missing terminators, right or wrong payloads, (c) arbitrary bytes;
// fragments of at most 16 KiB.  Two delivery modes, both reachable through the public API:
// transport mode (delivery stops at the first callback that signals an error, then
// zck_dl_reset and possibly a second, well-formed response on the same context) and
// pass-through mode (the caller installed its own write callback, whose return value
// zck_write_chunk_cb returns instead of its own, so delivery continues after an internal error).
// Oracle: every case runs in a forked child under ASan/UBSan with a CPU limit (no report, signal
// or overrun); afterwards every chunk marked valid hashes to its index checksum (reference) and
// every byte outside the extents requested is unchanged against a snapshot.
#include "pbt/pbt.hpp"
#include "ref/zckref.hpp"
#include "lib/zcklib.hpp"
#include "gen/gens.hpp"
#include "gen/dl.hpp"
#include "gen/mutate.hpp"

using pbt::Ctx; using pbt::Bytes;

static size_t passthrough_cb(void *, size_t l, size_t c, void *cnt) { if (cnt) (*(size_t *)cnt)++; return l * c; }

static std::string fuzz_boundary(Ctx &c) {
    std::string b; size_t n;
    switch (c.draw(8)) {
    case 0: return "";
    case 1: n = 1 + c.draw(5); for (size_t i = 0; i < n; i++) b += "[](){}*+?.|^$\\"[c.pick(15)]; return b;
    case 2: n = 1 + c.draw(30); for (size_t i = 0; i < n; i++) b += (char)c.draw(255); return b;                 // any byte incl. NUL, CR, LF
    case 3: b.assign(c.boolean() ? 16000 : 1000 + c.draw(3000), 'a' + (char)c.draw(3)); return b;
    case 4: return "\"";
    case 5: return "\"\"";
    case 6: n = 1 + c.draw(12); for (size_t i = 0; i < n; i++) b += "ab[c(d"[c.pick(6)]; return "\"" + b + "\"";
    default: n = 1 + c.draw(20); for (size_t i = 0; i < n; i++) b += "0123456789abcdef"[c.pick(16)]; return b;
    }
}

static void prop(Ctx &c) {
    gen::ZFileOpts o; o.max_chunks = 8; o.max_chunk = 200; o.allow_empty = false;
    gen::ZFile B = gen::zfile(c, o);
    // an index that lists an EMPTY chunk (no stored bytes, size 0) somewhere behind the dictionary, with an arbitrary checksum: nothing a
    // writer produces, but a parsed target all the same.  Such a chunk can never hold bytes that match a non-zero checksum.
    if (c.gver >= 4 && c.rarely(4)) {
        ref::Header h2 = B.h; ref::Entry e; int cds = ref::digest_size(h2.chunk_hash_type); e.comp_len = 0; e.len = 0; e.digest = c.rarely(3) ? Bytes(cds, 0) : c.bytes(cds); e.udigest = (h2.flags & 4) ? e.digest : Bytes();
        size_t at = 1 + c.draw(h2.entries.size() - 1); h2.entries.insert(h2.entries.begin() + at, e); h2.count = h2.entries.size();
        Bytes nf = ref::emit_header(h2); nf.insert(nf.end(), B.file.begin() + B.h.total_size, B.file.end()); ref::ParseResult p2 = ref::parse(nf);
        if (p2.ok) { B.file = nf; B.h = p2.h; B.desc += " +empty-chunk-entry@" + std::to_string(at); c.label("empty-chunk-in-index"); }
    }
    size_t n = B.nchunks();
    Bytes T0 = B.file; std::string pat;
    for (size_t i = 0; i < n; i++) { size_t off = B.off(i), cl = B.clen(i); if (!cl) { pat += "+"; continue; } if (c.boolean()) { pat += "+"; continue; } pat += "0"; std::fill(T0.begin() + off, T0.begin() + off + cl, (uint8_t)0x11); }
    static const int lims[] = {-1, 1, 2, 3, 7}; int limit = lims[c.pick(5)];
    bool passthrough = c.boolean();
    // third way of driving the callbacks the public API allows: a caller that answers a refused fragment with zck_clear_error()
    // and keeps feeding what the server sends (no zck_dl_reset in between)
    bool clear_continue = c.gver >= 2 && c.rarely(3);

    int fd = lib::mkfd(T0, "tgt"); zckCtx *z = zck_create();
    if (!zck_init_read(z, fd)) { zck_free(&z); close(fd); c.fail("target-open", "target does not open"); }
    (void)!zck_find_valid_chunks(z); zck_reset_failed_chunks(z);
    zckDL *d = zck_dl_init(z); size_t user_calls = 0;
    if (passthrough) { (void)!zck_dl_set_write_cb(d, passthrough_cb); (void)!zck_dl_set_write_data(d, &user_calls); }
    zckRange *r = zck_get_missing_range(z, limit); (void)!zck_dl_set_range(d, r);
    char *rs = r && zck_get_range_count(r) > 0 ? zck_get_range_char(z, r) : nullptr; std::string range_str = rs ? rs : ""; free(rs);
    std::vector<dl::Range> rq; if (!range_str.empty()) dl::parse_ranges(range_str, rq);

    // ---- response
    dl::Server srv; srv.file = B.file; srv.style = dl::gen_style(c, false);
    dl::Response good; if (!range_str.empty()) good = srv.respond(range_str);
    std::vector<std::string> hl; Bytes body; std::ostringstream rd;
    uint64_t hmode = c.draw(3);
    if (hmode == 0) { hl = good.header_lines; rd << "headers=correct ";
        if (c.gver >= 4 && c.rarely(4)) { std::vector<std::string> h2; for (auto &l : hl) { if (l.size() >= 2) { size_t cut = 1 + c.draw(std::min<size_t>(l.size() - 2, 20)); h2.push_back(l.substr(0, cut)); h2.push_back(l.substr(cut)); } else h2.push_back(l); } hl = h2; rd << "(every line in two pieces) "; c.label("header-line-in-pieces"); } }
    else {
        size_t nl = 1 + c.draw(4); rd << "headers=";
        for (size_t i = 0; i < nl; i++) {
            uint64_t k = c.draw(4); std::string line;
            if (k == 0) { Bytes b = c.bytes(c.draw(60)); line.assign(b.begin(), b.end()); rd << "noise "; }
            else { std::string bd = k == 1 ? srv.style.boundary : fuzz_boundary(c); static const char *pre[] = {"Content-Type: multipart/byteranges; boundary=", "content-type:multipart/byteranges;boundary = ", "X: y; BOUNDARY=", "boundary=", "Content-Type: multipart/byteranges; charset=x; boundary="};
                   line = std::string(pre[c.pick(5)]) + bd; rd << "boundary[" << bd.size() << "] "; }
            uint64_t t = c.draw(5); line += t == 0 ? "\n" : t == 1 ? "" : t == 2 ? " \r\n" : "\r\n";
            // a header line that arrives in pieces (or is cut off): every piece is a callback invocation of its own
            if (c.gver >= 4 && c.rarely(3) && line.size() >= 2) { size_t cut = 1 + c.draw(std::min<size_t>(line.size() - 2, c.boolean() ? 14 : 80)); hl.push_back(line.substr(0, cut)); if (c.boolean()) hl.push_back(line.substr(cut)); rd << "(line cut at " << cut << ") "; c.label("header-line-in-pieces"); continue; }
            hl.push_back(line);
        }
    }
    uint64_t bmode = c.draw(4);
    if (bmode == 0 || good.body.empty()) { body = c.bytes(c.skewed(3000)); rd << "body=noise[" << body.size() << "]"; }
    else if (bmode == 1) { body = good.body; size_t nm = c.draw(3); for (size_t i = 0; i < nm; i++) gen::mutate_raw(c, body, 0); rd << "body=correct+" << nm << "mutations";
        if (c.gver >= 4 && c.rarely(3) && body.size() > 2) { body.resize(1 + c.draw(body.size() - 2)); rd << "+broken-off-at-" << body.size(); c.label("response-broken-off"); } }
    else {
        rd << "body=structured"; size_t np = 1 + c.draw(5); auto add = [&](const std::string &t) { body.insert(body.end(), t.begin(), t.end()); };
        for (size_t p = 0; p < np; p++) {
            if (c.chance(3, 4)) add("\r\n");
            add("--"); add(c.chance(3, 4) ? srv.style.boundary : fuzz_boundary(c).substr(0, 40)); if (c.rarely(6)) add("--"); add(c.chance(5, 6) ? "\r\n" : "\n");
            if (c.chance(3, 4)) add("Content-Type: application/octet-stream\r\n");
            uint64_t k = c.draw(6); uint64_t a = 0, b = 0; bool have = true;
            if (k <= 1 && p < rq.size()) { a = rq[p].s; b = rq[p].e; } else if (k == 2) { a = c.draw(5000); b = c.draw(5000); } else if (k == 3) { a = c.u64(); b = c.u64(); } else if (k == 4) have = false; else { a = 5; b = 4; }
            if (have && c.gver >= 2 && c.rarely(5)) {   // numbers of 20..300 digits: zero-padded correct offsets, or all nines
                static const size_t nd[] = {20, 23, 24, 25, 26, 40, 64, 300}; size_t w1 = nd[c.pick(8)], w2 = nd[c.pick(8)]; bool pad = c.boolean();
                auto num = [&](uint64_t v, size_t w) { std::string t = pad ? std::to_string(v) : std::string(); while (t.size() < w) t = (pad ? "0" : "9") + t; return t; };
                add("Content-Range: bytes " + num(a, w1) + "-" + num(b, w2) + "/" + std::to_string(B.file.size()) + "\r\n"); rd << "(long-numbers) ";
            } else if (have) { if (k == 3 && c.boolean()) add("Content-Range: bytes 99999999999999999999-99999999999999999999999/1\r\n"); else add("Content-Range: bytes " + std::to_string(a) + "-" + std::to_string(b) + "/" + std::to_string(B.file.size()) + "\r\n"); }
            if (c.chance(5, 6)) add("\r\n");
            size_t plen = k <= 1 && p < rq.size() && c.chance(3, 4) ? (size_t)(rq[p].e - rq[p].s + 1) : c.skewed(400);
            if (k <= 1 && p < rq.size() && c.chance(3, 4) && rq[p].s + plen <= B.file.size()) body.insert(body.end(), B.file.begin() + rq[p].s, B.file.begin() + rq[p].s + plen); else { Bytes g = c.bytes(plen); body.insert(body.end(), g.begin(), g.end()); }
        }
        if (c.boolean()) add("\r\n--" + srv.style.boundary + "--\r\n");
    }
    std::vector<size_t> cuts = dl::gen_cuts(c, body.size());
    c.desc << B.desc << " pattern=" << pat << " limit=" << limit << " request=" << range_str.substr(0, 60) << (passthrough ? " PASS-THROUGH" : " transport") << (clear_continue ? " CLEAR-ERROR-AND-CONTINUE" : "") << " " << rd.str() << " cuts=" << cuts.size();
    c.checkpoint();
    c.label(passthrough ? "pass-through" : "transport");

    dl::Response resp; resp.header_lines = hl; resp.body = body;
    // a header line that arrives AFTER some of the body (a trailer, a repeated Content-Type, a retried response on the same context)
    std::string late_line; size_t late_after = 0;
    if (c.gver >= 2 && c.rarely(4)) { std::string bd = c.boolean() ? srv.style.boundary : fuzz_boundary(c); late_line = "Content-Type: multipart/byteranges; boundary=" + bd + "\r\n"; late_after = c.draw(6); c.label("late-boundary-header"); }
    bool accepted;
    if (!late_line.empty()) {
        accepted = true; size_t k = 0; bool stop = false;
        for (auto &l : resp.header_lines) { if (!dl::header_line(d, l)) { accepted = false; if (clear_continue) (void)!zck_clear_error(z); else { stop = true; break; } } }
        for (auto &f : dl::fragments(resp.body.size(), cuts)) { if (stop) break;
            if (k++ == late_after) { if (!dl::header_line(d, late_line)) { accepted = false; if (clear_continue) (void)!zck_clear_error(z); else break; } }
            Bytes tmp(resp.body.begin() + f.first, resp.body.begin() + f.first + f.second);
            if (zck_write_chunk_cb(tmp.data(), 1, tmp.size(), d) != tmp.size()) { accepted = false; if (clear_continue) (void)!zck_clear_error(z); else break; } }
    } else if (!clear_continue) accepted = dl::deliver(d, resp, cuts, zck_write_chunk_cb, nullptr, false);
    else {
        accepted = true; c.label("clear-error-and-continue");
        for (auto &l : resp.header_lines) { if (!dl::header_line(d, l)) { accepted = false; (void)!zck_clear_error(z); } }
        for (auto &f : dl::fragments(resp.body.size(), cuts)) { Bytes tmp(resp.body.begin() + f.first, resp.body.begin() + f.first + f.second);
            if (zck_write_chunk_cb(tmp.data(), 1, tmp.size(), d) != tmp.size()) { accepted = false; (void)!zck_clear_error(z); } }
    }
    bool boundary_seen = d->boundary != nullptr; bool regex_built = d->dl_regex != nullptr;
    if (boundary_seen) c.label("boundary-extracted"); if (regex_built) c.label("part-regex-built");
    if (boundary_seen && regex_built) c.nontrivial();
    c.label(accepted ? "all-accepted" : "refused");
    // second round on the same context: reset, fresh request, well-formed response
    if (c.rarely(3)) {
        (void)!zck_dl_set_range(d, nullptr); if (r) zck_range_free(&r); r = nullptr;
        // between the two requests the caller may look at the target again (a rescan moves the descriptor's position)
        bool rescan = c.gver >= 4 && c.boolean(); int order = rescan ? (int)c.draw(1) : 0;
        (void)!zck_clear_error(z); if (rescan && order == 0) { (void)!zck_find_valid_chunks(z); (void)!zck_clear_error(z); }
        zck_reset_failed_chunks(z); zck_dl_reset(d); if (rescan && order == 1) { (void)!zck_find_valid_chunks(z); (void)!zck_clear_error(z); zck_reset_failed_chunks(z); } if (rescan) c.label("rescan-between-requests");
        if (passthrough) { (void)!zck_dl_set_write_cb(d, passthrough_cb); (void)!zck_dl_set_write_data(d, &user_calls); }
        r = zck_get_missing_range(z, limit);
        if (r && zck_dl_set_range(d, r) && zck_get_range_count(r) > 0) {
            char *s2 = zck_get_range_char(z, r); std::string rs2 = s2 ? s2 : ""; free(s2);
            std::vector<dl::Range> rq2; if (dl::parse_ranges(rs2, rq2)) { rq.insert(rq.end(), rq2.begin(), rq2.end()); dl::Response g2 = srv.respond(rs2); if (g2.status == 206) { (void)dl::deliver(d, g2, dl::gen_cuts(c, g2.body.size()), zck_write_chunk_cb); c.label("second-round"); } }
        }
    }
    // ---- post-conditions (C05's guarantees)
    Bytes T1 = lib::fd_bytes(fd); std::string fsig, fmsg; size_t i = 0;
    for (zckChunk *ch = z->index.first; ch; ch = ch->next, i++) {
        size_t off = B.off(i), cl = B.clen(i);
        if (ch->valid == 1 && !cl && i > 0 && B.h.entries[i].digest != Bytes(B.h.entries[i].digest.size(), 0) && B.h.entries[i].digest != ref::digest((int)B.h.chunk_hash_type, T1.data(), 0)) { fsig = "valid-with-wrong-bytes"; fmsg = "empty chunk " + std::to_string(i) + " is marked valid although no bytes can hash to its (non-zero) index checksum"; break; }
        if (ch->valid == 1 && cl && (T1.size() < off + cl || ref::digest((int)B.h.chunk_hash_type, T1.data() + off, cl) != B.h.entries[i].digest)) { fsig = "valid-with-wrong-bytes"; fmsg = "chunk " + std::to_string(i) + " is marked valid but its bytes do not hash to its index checksum"; break; }
    }
    auto in_request = [&](size_t pos) { for (auto &x : rq) if (pos >= x.s && pos <= x.e) return true; return false; };
    if (fsig.empty()) { size_t lim = std::min(T0.size(), T1.size()); for (size_t p = 0; p < lim; p++) if (T0[p] != T1[p] && !in_request(p)) { fsig = "not-confined"; fmsg = "byte " + std::to_string(p) + " outside the requested extents {" + range_str.substr(0, 80) + "} was modified"; break; }
                       for (size_t p = lim; p < T1.size() && fsig.empty(); p++) if (!in_request(p) && T1[p]) { fsig = "not-confined"; fmsg = "byte " + std::to_string(p) + " beyond the end of the target and outside the request was written"; } }
    (void)!zck_dl_set_range(d, nullptr); if (r) zck_range_free(&r);
    zck_dl_free(&d); zck_free(&z); close(fd);
    if (!fsig.empty()) c.fail(fsig, fmsg);
}

PBT_MAIN("C17", prop, nullptr)
