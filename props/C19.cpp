// C19  Independent contexts do not interfere when used from different threads.
//
// Generated: 2..8 thread programs, each a scenario over its OWN contexts and files - write a
// file, read one, validate a damaged one, copy chunks from an own source into an own target,
// feed a range response to the download callbacks of an own target, random-access chunk requests
// with digest/range strings and error messages - with generator-chosen
// yield / spin points between API calls to perturb the schedule; a start barrier releases all
// threads together; logging is configured once before the threads start.
// Oracle: (a) serial equivalence - the digest of each program's outputs (files, return codes,
// validity vectors) equals the digest obtained by running the same program alone; (b) the
// binary and the library are built with ThreadSanitizer (halt_on_error): any report kills the
// case and is attributed to it by the runner - happens-before detection reports an
// unsynchronised conflicting access pair whenever both accesses occur in the run, whatever the
// timing.
#include "pbt/pbt.hpp"
#include "ref/zckref.hpp"
#include "lib/zcklib.hpp"
#include "gen/gens.hpp"
#include "gen/dl.hpp"
#include <pthread.h>
#include <sched.h>
#include <atomic>
#include <memory>

using pbt::Ctx; using pbt::Bytes;
extern "C" int zckv_fd_misuse;            // lib/nonreentrant.c: close() calls that hit EBADF

struct Prog {
    int kind = 0;                         // 0 write 1 read 2 validate 3 copy 4 download 5 random access + metadata strings 6 pinned/advanced open (lead probe) 7 chunk matching between two files
    std::vector<int> delays;              // consumed cyclically between API calls: 0 none, 1 yield, n>1 spin n*50
    // inputs (prepared in the main thread)
    Bytes content; lib::WCfg cfg; std::vector<lib::WOp> ops;            // write
    Bytes file; std::vector<size_t> reads;                              // read / validate / random access (reads = chunk numbers)
    Bytes src, tgt; gen::ZFile B;                                       // copy / download
    dl::Response resp; std::vector<size_t> cuts; int limit = -1;
    uint64_t result = 0; std::string detail;
    size_t di = 0;
    void pause() { if (delays.empty()) return; int d = delays[di++ % delays.size()]; if (d == 1) sched_yield(); else for (volatile int i = 0; i < d * 50; i = i + 1) {} }
};

static uint64_t H(uint64_t h, const void *p, size_t n) { return pbt::fnv1a(p, n, h ^ 0x9e3779b97f4a7c15ULL); }
static uint64_t Hi(uint64_t h, int64_t v) { return H(h, &v, sizeof v); }

static void run_prog(Prog &p) {
    uint64_t h = 1469598103934665603ULL; p.di = 0;
    switch (p.kind) {
    case 0: {
        int fd = memfd_create("w", 0); zckCtx *z = zck_create(); bool ok = zck_init_write(z, fd); std::string e; p.pause();
        if (ok) ok = lib::apply_cfg(z, p.cfg, e); size_t off = 0;
        if (ok) for (auto &op : p.ops) { p.pause(); if (op.end) { if (zck_end_chunk(z) < 0) { ok = false; break; } } else { size_t n = std::min(op.n, p.content.size() - off); if (zck_write(z, (const char *)p.content.data() + off, n) != (ssize_t)n) { ok = false; break; } off += n; } }
        if (ok && off < p.content.size()) ok = zck_write(z, (const char *)p.content.data() + off, p.content.size() - off) == (ssize_t)(p.content.size() - off);
        p.pause(); if (ok) ok = zck_close(z); h = Hi(h, ok); if (ok) { Bytes f = lib::fd_bytes(fd); h = H(h, f.data(), f.size()); h = Hi(h, f.size()); }
        zck_free(&z); close(fd); break; }
    case 1: {
        int fd = lib::mkfd(p.file); zckCtx *z = zck_create(); bool ok = zck_init_read(z, fd); h = Hi(h, ok); std::vector<char> buf; size_t k = 0;
        while (ok) { p.pause(); size_t n = p.reads[k++ % p.reads.size()]; if (buf.size() < n) buf.resize(n); ssize_t g = zck_read(z, buf.data(), n); h = Hi(h, g); if (g <= 0) break; h = H(h, buf.data(), g); }
        p.pause(); if (ok) h = Hi(h, zck_close(z)); zck_free(&z); close(fd); break; }
    case 2: {
        int fd = lib::mkfd(p.file); zckCtx *z = zck_create(); bool ok = zck_init_read(z, fd); h = Hi(h, ok);
        if (ok) { p.pause(); h = Hi(h, zck_validate_checksums(z)); p.pause(); h = Hi(h, zck_validate_data_checksum(z)); p.pause(); h = Hi(h, zck_find_valid_chunks(z)); for (zckChunk *ch = z->index.first; ch; ch = ch->next) h = Hi(h, ch->valid); }
        zck_free(&z); close(fd); break; }
    case 3: {
        int sfd = lib::mkfd(p.src), tfd = lib::mkfd(p.tgt); zckCtx *s = zck_create(), *t = zck_create(); bool ok = zck_init_read(s, sfd) && zck_init_read(t, tfd); h = Hi(h, ok);
        if (ok) { p.pause(); h = Hi(h, zck_find_valid_chunks(t)); zck_reset_failed_chunks(t); p.pause(); h = Hi(h, zck_copy_chunks(s, t)); for (zckChunk *ch = t->index.first; ch; ch = ch->next) h = Hi(h, ch->valid); Bytes f = lib::fd_bytes(tfd); h = H(h, f.data(), f.size()); }
        zck_free(&s); zck_free(&t); close(sfd); close(tfd); break; }
    case 5: {
        int fd = lib::mkfd(p.file); zckCtx *z = zck_create(); bool ok = zck_init_read(z, fd); h = Hi(h, ok);
        auto str = [&](char *t) { if (t) { h = H(h, t, strlen(t)); free(t); } else h = Hi(h, -7); };
        if (ok) {
            str(zck_get_header_digest(z)); p.pause(); str(zck_get_data_digest(z)); std::vector<char> buf;
            for (size_t num : p.reads) { p.pause(); zckChunk *ch = zck_get_chunk(z, num % (size_t)zck_get_chunk_count(z)); if (!ch) { h = Hi(h, -9); continue; }
                str(zck_get_chunk_digest(ch)); str(zck_get_chunk_digest_uncompressed(ch));
                ssize_t sz = (num & 64) ? zck_get_chunk_comp_size(ch) : zck_get_chunk_size(ch); if (sz < 0) sz = 0; if (buf.size() < (size_t)sz + 1) buf.resize(sz + 1);
                ssize_t g = (num & 64) ? zck_get_chunk_comp_data(ch, buf.data(), sz) : zck_get_chunk_data(ch, buf.data(), sz); h = Hi(h, g); if (g > 0) h = H(h, buf.data(), g); }
            p.pause(); zckRange *r = zck_get_missing_range(z, p.limit); if (r) { h = Hi(h, zck_get_range_count(r)); char *rs = zck_get_range_char(z, r); str(rs); zck_range_free(&r); }
            const char *e = zck_get_error(z); if (e) h = H(h, e, strlen(e));
        } else { const char *e = zck_get_error(z); if (e) h = H(h, e, strlen(e)); }
        zck_free(&z); close(fd); break; }
    case 6: {   // advanced open: optional pins (reads[0] bit mask, reads[1] type, reads[2] length), lead probe, lead, header, getters
        int fd = lib::mkfd(p.file); zckCtx *z = zck_create(); bool ok = zck_init_adv_read(z, fd); h = Hi(h, ok);
        if (ok) {
            size_t m = p.reads[0];
            if (m & 1) h = Hi(h, zck_set_ioption(z, ZCK_VAL_HEADER_HASH_TYPE, (ssize_t)p.reads[1]));
            if (m & 2) h = Hi(h, zck_set_soption(z, ZCK_VAL_HEADER_DIGEST, p.detail.data(), p.detail.size()));
            if (m & 4) h = Hi(h, zck_set_ioption(z, ZCK_VAL_HEADER_LENGTH, (ssize_t)p.reads[2]));
            p.pause(); if (m & 8) { h = Hi(h, zck_validate_lead(z)); p.pause(); if (m & 16) h = Hi(h, zck_validate_lead(z)); }
            bool l = zck_read_lead(z); h = Hi(h, l); p.pause(); bool hd = l && zck_read_header(z); h = Hi(h, hd);
            if (hd) { h = Hi(h, zck_get_lead_length(z)); h = Hi(h, zck_get_header_length(z)); h = Hi(h, zck_get_data_length(z)); h = Hi(h, zck_get_length(z)); h = Hi(h, zck_get_chunk_count(z)); h = Hi(h, zck_get_full_hash_type(z)); h = Hi(h, zck_get_chunk_hash_type(z)); h = Hi(h, zck_get_min_download_size());
                      p.pause(); h = Hi(h, zck_missing_chunks(z)); h = Hi(h, zck_failed_chunks(z)); char *d = zck_get_header_digest(z); if (d) { h = H(h, d, strlen(d)); free(d); } }
            const char *e = zck_get_error(z); if (e) h = H(h, e, strlen(e)); h = Hi(h, zck_clear_error(z));
        }
        zck_free(&z); close(fd); break; }
    case 7: {
        int sfd = lib::mkfd(p.src), tfd = lib::mkfd(p.tgt); zckCtx *s = zck_create(), *t = zck_create(); bool ok = zck_init_read(s, sfd) && zck_init_read(t, tfd); h = Hi(h, ok);
        if (ok) { p.pause(); h = Hi(h, zck_find_matching_chunks(s, t)); p.pause(); for (zckChunk *ch = zck_get_first_chunk(t); ch; ch = zck_get_next_chunk(ch)) { h = Hi(h, zck_get_chunk_valid(ch)); h = Hi(h, zck_get_chunk_number(ch)); h = Hi(h, zck_get_chunk_start(ch)); }
                  h = Hi(h, zck_missing_chunks(t)); zck_reset_failed_chunks(t); p.pause(); zckChunk *sc = zck_get_src_chunk(zck_get_first_chunk(t)); h = Hi(h, sc ? zck_get_chunk_number(sc) : -5); }
        zck_free(&s); zck_free(&t); close(sfd); close(tfd); break; }
    default: {
        int tfd = lib::mkfd(p.tgt); zckCtx *z = zck_create(); bool ok = zck_init_read(z, tfd); h = Hi(h, ok);
        if (ok) { (void)!zck_find_valid_chunks(z); zck_reset_failed_chunks(z); zckDL *d = zck_dl_init(z); zckRange *r = zck_get_missing_range(z, p.limit); p.pause();
            if (r && zck_dl_set_range(d, r)) { for (auto &l : p.resp.header_lines) { std::string t = l; h = Hi(h, zck_header_cb((char *)t.data(), 1, t.size(), d)); }
                for (auto &f : dl::fragments(p.resp.body.size(), p.cuts)) { p.pause(); Bytes tmp(p.resp.body.begin() + f.first, p.resp.body.begin() + f.first + f.second); size_t g = zck_write_chunk_cb(tmp.data(), 1, tmp.size(), d); h = Hi(h, g); if (g != tmp.size()) break; } }
            for (zckChunk *ch = z->index.first; ch; ch = ch->next) h = Hi(h, ch->valid); Bytes f = lib::fd_bytes(tfd); h = H(h, f.data(), f.size());
            (void)!zck_dl_set_range(d, nullptr); if (r) zck_range_free(&r); zck_dl_free(&d); }
        zck_free(&z); close(tfd); break; }
    }
    p.result = h;
}

struct Shared { pthread_barrier_t bar; };
struct Arg { Prog *p; Shared *sh; };
static void *thread_main(void *a) { Arg *x = (Arg *)a; pthread_barrier_wait(&x->sh->bar); run_prog(*x->p); return nullptr; }

static void prop(Ctx &c) {
    // global logging settings are chosen per case, before any thread starts (the property's proviso)
    static int nullfd = -1; if (nullfd < 0) { nullfd = open("/dev/null", O_WRONLY); zck_set_log_fd(nullfd); }
    bool dbg = c.chance(1, 4); zck_set_log_level(dbg ? ZCK_LOG_DEBUG : ZCK_LOG_NONE); if (dbg) c.label("debug-logging");
    size_t nt = 2 + c.draw(c.tier ? 6 : 4); std::vector<std::unique_ptr<Prog>> progs; std::string kinds;
    uint64_t same_kind = c.draw(6);            // often force several threads onto the same library path
    for (size_t i = 0; i < nt; i++) {
        std::unique_ptr<Prog> p(new Prog()); p->kind = c.gver >= 3 ? (same_kind <= 5 && c.chance(1, 2) ? (int)same_kind : (int)c.draw(7)) : (same_kind <= 5 && c.chance(2, 3) ? (int)same_kind : (int)c.draw(5));
        size_t nd = c.draw(6); for (size_t k = 0; k < nd; k++) p->delays.push_back((int)c.draw(3) == 0 ? 0 : (int)c.draw(3) == 1 ? 1 : (int)c.draw(40));
        gen::ZFileOpts o; o.max_chunks = 6; o.max_chunk = c.boolean() ? 400 : 40000; o.allow_empty = false;
        switch (p->kind) {
        case 0: p->content = gen::content(c, 200000).data; p->cfg = gen::wcfg(c, p->content); if (p->cfg.level > 4) p->cfg.level = 2; p->ops = gen::whistory(c, p->content.size(), p->cfg.manual); if (p->ops.size() > 200) p->ops.resize(200); break;
        case 1: { gen::ZFile z = gen::zfile(c, o); p->file = z.file; p->reads = gen::rhistory(c); for (auto &x : p->reads) if (x < 64) x = 64; break; }
        case 2: { gen::ZFile z = gen::zfile(c, o); p->file = z.file; if (c.boolean()) { size_t i2 = c.pick(z.nchunks()); if (z.clen(i2)) p->file[z.off(i2) + c.pick(z.clen(i2))] ^= 1; } break; }
        case 3: { gen::ZParams q = gen::zparams(c, o); gen::ZFile B = gen::zfile_build(c, q); gen::ZParams qa = q; qa.by_ref = false; if (!qa.chunks.empty() && c.boolean()) qa.chunks[c.pick(qa.chunks.size())] = gen::chunk_content(c, 300); gen::ZFile A = gen::zfile_build(c, qa);
                  p->src = A.file; p->tgt.assign(B.file.begin(), B.file.begin() + B.h.total_size); break; }
        case 5: { gen::ZFile z = gen::zfile(c, o); p->file = z.file; if (c.chance(1, 5) && z.file.size() > 3) p->file[c.pick(p->file.size())] ^= (uint8_t)(1 + c.draw(254)); size_t nr = 1 + c.draw(12); for (size_t k = 0; k < nr; k++) p->reads.push_back(c.draw(127)); p->limit = c.boolean() ? -1 : (int)c.draw(3); break; }
        case 6: { gen::ZFile z = gen::zfile(c, o); p->file = z.file; if (c.chance(1, 3)) p->file.resize(z.h.total_size);                    // detached-style body-less file
                  if (c.chance(1, 3)) p->file[c.pick(std::min<size_t>(p->file.size(), z.h.total_size))] ^= (uint8_t)(1 + c.draw(254));     // damaged lead/header: the probe has something to refuse
                  p->reads = {c.draw(31), c.chance(2, 3) ? (size_t)z.h.hash_type : c.draw(3), c.chance(2, 3) ? (size_t)z.h.total_size : c.draw(400)};
                  p->detail = lib::hex_of(z.h.header_digest); if (c.chance(1, 4) && !p->detail.empty()) p->detail[c.pick(p->detail.size())] = "0123456789abcdefABCDEFg"[c.draw(22)]; break; }
        case 7: { gen::ZParams q = gen::zparams(c, o); gen::ZFile B = gen::zfile_build(c, q); gen::ZParams qa = q; qa.by_ref = false; if (!qa.chunks.empty() && c.boolean()) qa.chunks[c.pick(qa.chunks.size())] = gen::chunk_content(c, 300); if (c.boolean()) qa.comp = c.boolean() ? ZCK_COMP_ZSTD : ZCK_COMP_NONE;
                  gen::ZFile A = gen::zfile_build(c, qa); p->src = A.file; p->tgt = B.file; break; }
        default: { p->kind = 4; o.max_chunk = 300; gen::ZFile B = gen::zfile(c, o); p->tgt = B.file; for (size_t k = 0; k < B.nchunks(); k++) if (B.clen(k) && c.chance(2, 3)) std::fill(p->tgt.begin() + B.off(k), p->tgt.begin() + B.off(k) + B.clen(k), 0);
                   // the request the thread will compute is determined by the target: precompute the response
                   int fd = lib::mkfd(p->tgt); zckCtx *z = zck_create(); p->limit = c.boolean() ? -1 : 2;
                   if (zck_init_read(z, fd)) { (void)!zck_find_valid_chunks(z); zck_reset_failed_chunks(z); zckRange *r = zck_get_missing_range(z, p->limit); if (r && zck_get_range_count(r) > 0) { char *rs = zck_get_range_char(z, r); dl::Server srv; srv.file = B.file; srv.style = dl::gen_style(c, true); p->resp = srv.respond(rs ? rs : ""); free(rs); } if (r) zck_range_free(&r); }
                   zck_free(&z); close(fd); p->cuts = dl::gen_cuts(c, p->resp.body.size()); break; }
        }
        kinds += "WRVCDALM"[p->kind]; progs.push_back(std::move(p));
    }
    c.desc << nt << " threads, programs " << kinds; c.checkpoint();
    // serial baseline
    zckv_fd_misuse = 0;
    std::vector<uint64_t> serial; for (auto &p : progs) { run_prog(*p); serial.push_back(p->result); }
    // concurrent run
    Shared sh; pthread_barrier_init(&sh.bar, nullptr, (unsigned)nt); std::vector<pthread_t> th(nt); std::vector<Arg> args(nt);
    for (size_t i = 0; i < nt; i++) { args[i] = {progs[i].get(), &sh}; if (pthread_create(&th[i], nullptr, thread_main, &args[i])) c.fail("pthread", "cannot create thread"); }
    for (size_t i = 0; i < nt; i++) pthread_join(th[i], nullptr);
    pthread_barrier_destroy(&sh.bar);
    if (zckv_fd_misuse) c.fail("fd-lifetime", "the library closed a descriptor number that was not open (close() = EBADF, " + std::to_string(zckv_fd_misuse) + "x) while running {" + kinds + "}: between the two closes of one number another thread's open() can be handed that number and then loses its descriptor");
    bool same_path = false; for (size_t i = 0; i < nt; i++) for (size_t j = i + 1; j < nt; j++) if (kinds[i] == kinds[j]) same_path = true;
    if (same_path) c.nontrivial(); c.label(same_path ? "same-path-concurrently" : "all-different-paths"); for (char k : std::string("WRVCDALM")) if (std::count(kinds.begin(), kinds.end(), k) >= 2) c.label(std::string("2x") + k);
    for (size_t i = 0; i < nt; i++) if (progs[i]->result != serial[i]) c.fail(std::string("serial-equivalence:") + kinds[i], "thread " + std::to_string(i) + " (program " + kinds[i] + ") produced different outputs when run concurrently with {" + kinds + "} than when run alone");
}

PBT_MAIN("C19", prop, nullptr)
