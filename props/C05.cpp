// C05  Range reassembly is fragmentation-independent, verified and confined.
//
// Generated: B (2..12 small chunks, none/zstd, +/- dictionary) and a target = B's header + an
// arbitrary validity pattern of B's chunks (valid bytes / zeros / garbage), flags established
// through the public API (scan + reset); request = zck_get_missing_range(limit); response =
// plain single-range body, or multipart/byteranges with a generated boundary (digits, hex,
// alnum of 1..70 chars, RFC 2046 bchars incl. '()+_,-./:=?), quoted or not, header-name case and
// spacing variants, extra part headers, optional leading CRLF; optional payload corruption in
// the j-th requested chunk; fragmentation = ALL 1-cut partitions and (small responses) ALL 2-cut
// partitions, sampled k-cut partitions, all-1-byte fragments.
// Oracle: unfragmented run: every callback returns its full count, every requested chunk holds
// B's bytes and is valid, everything outside the requested extents is unchanged.  Every
// fragmented run: same return behaviour, byte-identical final file and identical flags
// (metamorphic).  With corruption in chunk j: the delivery is refused by the callback that
// completes j, j is zero-filled and marked failed, chunks completed before j are valid, nothing
// else changed - again independent of the fragmentation.
#include "pbt/pbt.hpp"
#include "ref/zckref.hpp"
#include "lib/zcklib.hpp"
#include "gen/gens.hpp"
#include "gen/dl.hpp"
#include <set>

using pbt::Ctx; using pbt::Bytes;

struct Outcome5 { bool opened = false, all_accepted = false; Bytes file; std::vector<int> flags; std::string err; size_t calls = 0; Bytes pre_file; std::vector<int> pre_flags; };

// `A` (optional): an older file the procedure copies matching chunks from before it asks the server (zckdl --source)
static Outcome5 run(const Bytes &T0, int limit, const dl::Response &resp, const std::vector<size_t> &cuts, std::string *range_str_out = nullptr, const Bytes *A = nullptr) {
    Outcome5 o; int fd = lib::mkfd(T0, "tgt"); zckCtx *z = zck_create();
    if (!zck_init_read(z, fd)) { o.err = zck_get_error(z); zck_free(&z); close(fd); return o; }
    o.opened = true;
    (void)!zck_find_valid_chunks(z); zck_reset_failed_chunks(z);
    if (A) { int sfd = lib::mkfd(*A, "src"); zckCtx *s = zck_create(); if (zck_init_read(s, sfd)) (void)!zck_copy_chunks(s, z); zck_free(&s); close(sfd); zck_reset_failed_chunks(z); }
    for (zckChunk *ch = z->index.first; ch; ch = ch->next) o.pre_flags.push_back(ch->valid);
    o.pre_file = lib::fd_bytes(fd);
    zckDL *d = zck_dl_init(z); zckRange *r = zck_get_missing_range(z, limit);
    if (r && zck_dl_set_range(d, r)) {
        if (range_str_out) { char *s = zck_get_range_char(z, r); *range_str_out = s ? s : ""; free(s); }
        else o.all_accepted = dl::deliver(d, resp, cuts, zck_write_chunk_cb, &o.calls);
        if (!o.all_accepted && zck_is_error(z)) o.err = zck_get_error(z);
    }
    (void)!zck_dl_set_range(d, nullptr); if (r) zck_range_free(&r);
    for (zckChunk *ch = z->index.first; ch; ch = ch->next) o.flags.push_back(ch->valid);      // through zck_private.h: the public getters refuse to answer once the context holds an error
    o.file = lib::fd_bytes(fd);
    zck_dl_free(&d); zck_free(&z); close(fd); return o;
}
static std::string fstr(const std::vector<int> &v) { std::string s; for (int x : v) s += x == 1 ? "+" : x == -1 ? "-" : "0"; return s; }

// Retry on the SAME download context, as the documented procedure does after a refused response: a response with a corrupted
// payload (or one that stops in mid-chunk) is delivered first, then zck_dl_reset() + zck_reset_failed_chunks() + a new request
// and a well-formed response.  The second response must be accepted and must leave every chunk it covers valid with B's bytes.
static std::string retry_run(const Bytes &T0, int limit, const gen::ZFile &B, const dl::Style &style, size_t corrupt_pos, bool cut_short, const std::vector<size_t> &cuts1, const std::vector<size_t> &cuts2) {
    int fd = lib::mkfd(T0, "tgt"); zckCtx *z = zck_create(); std::string out;
    if (!zck_init_read(z, fd)) { zck_free(&z); close(fd); return ""; }
    (void)!zck_find_valid_chunks(z); zck_reset_failed_chunks(z);
    zckDL *d = zck_dl_init(z); zckRange *r = zck_get_missing_range(z, limit);
    if (r && zck_dl_set_range(d, r) && zck_get_range_count(r) > 0) {
        char *s1 = zck_get_range_char(z, r); std::string rs1 = s1 ? s1 : ""; free(s1);
        dl::Server bad; bad.file = B.file; bad.style = style; if (corrupt_pos < bad.file.size()) bad.file[corrupt_pos] ^= 0x5a;
        dl::Response r1 = bad.respond(rs1);
        if (r1.status == 206) {
            if (cut_short && r1.body.size() > 3) r1.body.resize(r1.body.size() * 2 / 3);       // the transfer breaks off in mid-chunk
            (void)dl::deliver(d, r1, cuts1, zck_write_chunk_cb);
            // the retry
            (void)!zck_dl_set_range(d, nullptr); zck_range_free(&r); r = nullptr;
            (void)!zck_clear_error(z); zck_dl_reset(d); zck_reset_failed_chunks(z);
            r = zck_get_missing_range(z, limit);
            if (r && zck_dl_set_range(d, r) && zck_get_range_count(r) > 0) {
                char *s2 = zck_get_range_char(z, r); std::string rs2 = s2 ? s2 : ""; free(s2);
                std::vector<dl::Range> rq; dl::parse_ranges(rs2, rq);
                dl::Server good; good.file = B.file; good.style = style; dl::Response r2 = good.respond(rs2);
                if (r2.status == 206) {
                    bool acc = dl::deliver(d, r2, cuts2, zck_write_chunk_cb);
                    if (!acc) out = std::string("after a refused response and the documented retry (zck_dl_reset, zck_reset_failed_chunks, new request) a well-formed response on the same download context was refused: ") + zck_get_error(z);
                    Bytes T1 = lib::fd_bytes(fd); size_t i = 0;
                    for (zckChunk *ch = z->index.first; ch && out.empty(); ch = ch->next, i++) { size_t off = B.off(i), cl = B.clen(i); if (!cl) continue; bool cov = false; for (auto &x : rq) if (off >= x.s && off + cl - 1 <= x.e) cov = true; if (!cov) continue;
                        if (ch->valid != 1) out = "retry: chunk " + std::to_string(i) + " is covered by the accepted second response but is marked " + std::to_string(ch->valid);
                        else if (T1.size() < off + cl || memcmp(T1.data() + off, B.file.data() + off, cl) != 0) out = "retry: chunk " + std::to_string(i) + " is marked valid after the second response but does not hold B's bytes"; }
                }
            }
        }
    }
    (void)!zck_dl_set_range(d, nullptr); if (r) zck_range_free(&r);
    zck_dl_free(&d); zck_free(&z); close(fd); return out;
}

static void prop(Ctx &c) {
    gen::ZFileOpts o; o.max_chunks = 12; o.max_chunk = c.chance(2, 3) ? 24 : 400; o.allow_empty = false; o.allow_dups = c.rarely(4);
    gen::ZParams qb = gen::zparams(c, o);
    // large responses: a few chunks of 20-60 KB, so that single callback invocations carry more than the library's 32 KiB block
    // (a transport with a large buffer, or the caller handing over a whole response it has already received)
    bool big = c.gver >= 4 && c.rarely(6);
    if (big) { while (qb.chunks.size() > 6) qb.chunks.pop_back(); size_t nb = 2 + c.draw(1); for (size_t k = 0; k < nb; k++) { Bytes b(20000 + c.draw(40000)); gen::fill_random(b.data(), b.size(), c.draw(0xffff)); if (c.boolean()) for (auto &x : b) x &= 0x1f; size_t at = c.draw(qb.chunks.size()); qb.chunks.insert(qb.chunks.begin() + at, b); } if (qb.level > 3) qb.level = 3; c.label("large-response"); }
    gen::ZFile B = gen::zfile_build(c, qb); size_t n = B.nchunks();
    dl::g_max_piece = big ? (size_t)1 << 30 : 16384;          // large responses: pieces are exactly what the cut set says, however long
    // target: header + validity pattern
    Bytes T0 = B.file; std::vector<int> want_valid(n, 1); std::string pat; Bytes T0_after;
    for (size_t i = 0; i < n; i++) { size_t off = B.off(i), cl = B.clen(i); if (!cl) { pat += "+"; continue; }
        uint64_t k = c.draw(3); if (k <= 1) { pat += "+"; continue; } want_valid[i] = 0; pat += "0";
        if (k == 2) std::fill(T0.begin() + off, T0.begin() + off + cl, 0); else for (size_t j = 0; j < cl; j++) T0[off + j] = (uint8_t)(T0[off + j] ^ 0xa5 ^ (uint8_t)j); }
    if (c.rarely(5)) { T0.resize(B.h.total_size); pat = "header-only"; for (size_t i = 0; i < n; i++) want_valid[i] = B.clen(i) == 0; }
    static const int lims[] = {-1, 1, 2, 3, 7, -1}; int limit = lims[c.pick(6)];
    // an older version A sharing some of B's chunks, copied from before the request is computed (a third of the cases)
    Bytes Afile; const Bytes *A = nullptr;
    if (c.gver >= 2 && c.rarely(3)) { gen::ZParams qa = qb; qa.by_ref = false; qa.chunks.clear(); for (auto &ch : qb.chunks) if (c.boolean()) qa.chunks.push_back(ch); qa.chunks.push_back(gen::chunk_content(c, 300)); Afile = gen::zfile_build(c, qa).file; A = &Afile; pat += " after-copy-from-older-file"; c.label("copy-before-download"); }
    std::string range_str; { dl::Response none; Outcome5 p = run(T0, limit, none, {}, &range_str, A); if (!p.opened) c.fail("target-open", "target does not open: " + p.err);
        if (A) { want_valid = p.pre_flags; T0_after = p.pre_file; } }
    if (range_str.empty()) { c.label("nothing-missing"); c.desc << B.desc << " pattern=" << pat << " (nothing to request)"; return; }
    std::vector<dl::Range> rq; if (!dl::parse_ranges(range_str, rq)) c.fail("bad-range-string", "malformed range string " + range_str);
    // chunks covered by the request, in request order
    std::vector<size_t> covered; for (size_t i = 0; i < n; i++) { size_t off = B.off(i), cl = B.clen(i); if (!cl) continue; for (auto &r : rq) if (off >= r.s && off + cl - 1 <= r.e) covered.push_back(i); }
    dl::Server srv; srv.file = B.file; srv.style = dl::gen_style(c, false);
    int corrupt = -1; if (c.rarely(3) && !covered.empty()) { corrupt = (int)c.pick(covered.size()); size_t i = covered[corrupt]; srv.file[B.off(i) + c.pick(B.clen(i))] ^= (uint8_t)(1 + c.draw(254)); }
    dl::Response resp = srv.respond(range_str);
    if (resp.status != 206) c.fail("server", "range server refused " + range_str);
    size_t L = resp.body.size();
    c.desc << B.desc << " pattern=" << pat << " limit=" << limit << " request=" << range_str.substr(0, 80) << " response=" << (rq.size() == 1 ? "single" : "multipart{" + srv.style.str() + "}") << " body=" << L << "B"
           << (corrupt >= 0 ? " corrupt-chunk#" + std::to_string(corrupt) + "(of " + std::to_string(covered.size()) + ")" : "");
    c.checkpoint();
    c.label(rq.size() == 1 ? "single-range" : "multipart"); if (corrupt >= 0) c.label("payload-corrupted");

    // ---- baseline (unfragmented)
    Outcome5 base = run(T0, limit, resp, {}, nullptr, A);
    const Bytes &S0 = A ? T0_after : T0;      // the target as it is when the response arrives
    auto in_request = [&](size_t pos) { for (auto &r : rq) if (pos >= r.s && pos <= r.e) return true; return false; };
    auto check_confined = [&](const Outcome5 &x, const char *what) {
        if (x.file.size() != S0.size() && !(x.file.size() > S0.size() && S0.size() == B.h.total_size)) { /* header-only target grows when chunks are written */ }
        size_t lim = std::min(x.file.size(), S0.size());
        for (size_t p = 0; p < lim; p++) if (x.file[p] != S0[p] && !in_request(p)) c.fail("not-confined", std::string(what) + ": byte " + std::to_string(p) + " outside the requested extents was modified (header is " + std::to_string(B.h.total_size) + " bytes)");
        for (size_t p = lim; p < x.file.size(); p++) if (!in_request(p) && x.file[p] != 0) c.fail("not-confined", std::string(what) + ": byte " + std::to_string(p) + " beyond the old end of the target and outside the request was written");
    };
    if (corrupt < 0) {
        if (!base.all_accepted) c.fail(base.err.find("multipart") != std::string::npos ? "multipart-not-parsed" : "rejected-wellformed", "a well-formed response was refused (unfragmented): " + base.err);
        for (size_t i : covered) {
            if (base.flags[i] != 1) c.fail("not-marked-valid", "requested chunk " + std::to_string(i) + " is marked " + std::to_string(base.flags[i]) + " after a complete, correct response [" + base.err + "]");
            if (base.file.size() < B.off(i) + B.clen(i) || memcmp(base.file.data() + B.off(i), B.file.data() + B.off(i), B.clen(i)) != 0) c.fail("wrong-bytes", "requested chunk " + std::to_string(i) + " does not hold B's bytes at its offset");
        }
        for (size_t i = 0; i < n; i++) if (std::find(covered.begin(), covered.end(), i) == covered.end() && base.flags[i] != want_valid[i]) c.fail("flag-changed", "chunk " + std::to_string(i) + " was not requested but its flag changed to " + std::to_string(base.flags[i]));
    } else {
        size_t bad = covered[corrupt];
        if (base.all_accepted) c.fail("corruption-accepted", "every callback accepted its data although the payload of chunk " + std::to_string(bad) + " does not match its checksum");
        if (base.flags[bad] != -1) c.fail("bad-chunk-flag", "chunk " + std::to_string(bad) + " with a corrupted payload is marked " + std::to_string(base.flags[bad]) + ", expected failed");
        for (size_t p = B.off(bad); p < B.off(bad) + B.clen(bad) && p < base.file.size(); p++) if (base.file[p] != 0) c.fail("bad-chunk-not-zeroed", "chunk " + std::to_string(bad) + " failed its checksum but byte " + std::to_string(p) + " of its extent is not zero");
        for (int k = 0; k < corrupt; k++) { size_t i = covered[k]; if (base.flags[i] != 1 || memcmp(base.file.data() + B.off(i), B.file.data() + B.off(i), B.clen(i)) != 0) c.fail("earlier-chunk-lost", "chunk " + std::to_string(i) + " was completed before the corrupted one but is not valid with B's bytes"); }
        for (size_t k = corrupt + 1; k < covered.size(); k++) { size_t i = covered[k]; if (base.flags[i] == 1) c.fail("later-chunk-valid", "chunk " + std::to_string(i) + " comes after the refused one but is marked valid"); }
    }
    check_confined(base, "unfragmented");

    // ---- fragmentations
    uint64_t runs = 1, nontriv = 0; bool is_mp = rq.size() > 1;
    auto interesting = [&](size_t cutpos) { for (size_t k = 0; k + 1 < resp.part_header_spans.size(); k += 2) if (cutpos > resp.part_header_spans[k] && cutpos < resp.part_header_spans[k + 1]) return true; return false; };
    auto one = [&](const std::vector<size_t> &cuts) {
        Outcome5 x = run(T0, limit, resp, cuts, nullptr, A); runs++;
        bool nt = (is_mp || covered.size() >= 2); bool incut = false; for (size_t p : cuts) if (interesting(p)) incut = true; if (nt && (incut || !is_mp)) nontriv++;
        std::string cs; for (size_t k = 0; k < cuts.size() && k < 6; k++) cs += std::to_string(cuts[k]) + " "; if (cuts.size() > 6) cs += "...(" + std::to_string(cuts.size()) + " cuts)";
        if (x.all_accepted != base.all_accepted) { c.extra_evals = runs; c.fail("fragmentation-changes-acceptance", "cut at {" + cs + "}: delivery " + (x.all_accepted ? "accepted" : "refused (" + x.err + ")") + ", unfragmented delivery " + (base.all_accepted ? "accepted" : "refused")); }
        if (x.flags != base.flags) { c.extra_evals = runs; c.fail("fragmentation-changes-flags", "cut at {" + cs + "}: flags " + fstr(x.flags) + ", unfragmented " + fstr(base.flags)); }
        if (x.file != base.file) { size_t p = 0; while (p < x.file.size() && p < base.file.size() && x.file[p] == base.file[p]) p++; c.extra_evals = runs; c.fail("fragmentation-changes-file", "cut at {" + cs + "}: final file differs from the unfragmented run at byte " + std::to_string(p)); }
    };
    if (L >= 2 && L > 6000) {
        // too long to enumerate: every cut inside and right around a part header, then the rest in ONE piece (and the mirror image:
        // everything up to the cut in one piece), pairs with one cut in a part header, random cuts, 16 KiB and 40 KiB pieces
        std::set<size_t> P; for (size_t k = 0; k + 1 < resp.part_header_spans.size(); k += 2) for (size_t p = resp.part_header_spans[k] > 4 ? resp.part_header_spans[k] - 4 : 1; p <= resp.part_header_spans[k + 1] + 4 && p < L; p++) if (p >= 1) P.insert(p);
        pbt::Rng r(c.draw(0xffff)); for (int t = 0; t < 150; t++) P.insert(1 + r.below(L - 1));
        for (size_t p : P) one({p});
        std::vector<size_t> hp; for (size_t p : P) if (interesting(p)) hp.push_back(p);
        for (int t = 0; t < (c.tier ? 600 : 150) && !hp.empty(); t++) { size_t p = hp[r.below(hp.size())], q = 1 + r.below(L - 1); if (p == q) continue; one({std::min(p, q), std::max(p, q)}); }
        for (size_t step : {(size_t)16384, (size_t)40000, (size_t)32768, (size_t)1000}) { std::vector<size_t> cs; for (size_t p = step; p < L; p += step) cs.push_back(p); one(cs); if (!hp.empty()) { size_t h0 = hp[r.below(hp.size())]; std::vector<size_t> c2; for (size_t p = h0; p < L; p += step) c2.push_back(p); one(c2); } }
        for (int t = 0; t < 6; t++) one(dl::gen_cuts(c, L));
    } else if (L >= 2) {
        for (size_t p = 1; p < L; p++) one({p});                                     // ALL 1-cut partitions
        bool all2 = L <= (c.tier ? 420u : 220u);
        if (all2) { for (size_t p = 1; p < L; p++) for (size_t q = p + 1; q < L; q++) one({p, q}); c.label("all-2-cuts"); }
        else { size_t k = c.tier ? 3000 : 400; for (size_t t = 0; t < k; t++) { size_t p = 1 + c.draw(L - 2), q = 1 + c.draw(L - 2); if (p == q) continue; one({std::min(p, q), std::max(p, q)}); } }
        { std::vector<size_t> allc; for (size_t p = 1; p < L; p++) allc.push_back(p); one(allc); }          // 1-byte fragments
        for (int t = 0; t < 6; t++) one(dl::gen_cuts(c, L));                                                  // k-cut samples
    }
    // retry history on one download context (a quarter of the cases)
    if (c.gver >= 2 && c.rarely(4) && !covered.empty()) {
        size_t vi = covered[c.pick(covered.size())]; size_t pos = B.off(vi) + c.pick(B.clen(vi)); bool cut_short = c.boolean();
        std::vector<size_t> k1 = dl::gen_cuts(c, L), k2 = dl::gen_cuts(c, L);
        std::string e = retry_run(T0, limit, B, srv.style, pos, cut_short, k1, k2); runs += 2; c.label(cut_short ? "retry-after-broken-transfer" : "retry-after-corrupt-response");
        if (!e.empty()) { c.extra_evals = runs; c.fail("retry-refused", e + (cut_short ? " [first response broke off in mid-chunk]" : " [first response had a corrupted payload in chunk " + std::to_string(vi) + "]")); }
    }
    c.desc << " fragmentations=" << runs;
    c.extra_evals = runs; c.extra_distinct = nontriv; if (nontriv) c.nontrivial();
}

PBT_MAIN("C05", prop, nullptr)
