#!/opt/veriftools/pyvenv/bin/python3
"""C16 (tool level): what `zck` produces is a function of content and options only, and chunk
boundaries placed by `-s STRING` are local.

Hypothesis generates contents with the split string at chosen alignments relative to the tool's
32 KiB read blocks (same construction as props/C01_tools.py) and option sets.  Two relations:

 1. segmentation independence: the same content is given to `zck` (a) as a regular file, which the
    tool reads in 32 KiB blocks, and (b) through a FIFO that is fed in generated pieces, each
    handed over only after the tool has drained the previous one, so the tool's read() calls see
    exactly that segmentation.  The two archives must be byte-identical.
 2. shared suffix: contents P1+S and P2+S where S starts with the split string (so both outputs
    start a chunk at the beginning of S): the chunk lists (checksum, stored size, size) from that
    chunk on must be identical, and P+X1 / P+X2 must agree on every chunk that ends before |P|
    (both read from `zck_read_header -c`).

Driver contract: --seed --tier --counters --proc --nproc --replaydir [--replay file.json]"""
import argparse, json, os, resource, shutil, subprocess, sys, hashlib, tempfile, time, fcntl, termios, struct, threading

ap = argparse.ArgumentParser()
ap.add_argument("--seed", type=int, default=1); ap.add_argument("--tier", default="quick"); ap.add_argument("--counters")
ap.add_argument("--proc", type=int, default=0); ap.add_argument("--nproc", type=int, default=1); ap.add_argument("--replaydir", default="replay-new")
ap.add_argument("--replay"); ap.add_argument("--cases", type=int, default=0)
A = ap.parse_args()

BUILD = os.environ.get("VERIF_BUILD", os.path.join(os.path.dirname(os.path.dirname(os.path.abspath(__file__))), "build"))
TOOLS = os.path.join(BUILD, "asan", "tools")
WORK = tempfile.mkdtemp(prefix="c16t-", dir="/dev/shm")
BLOCK = 32768
stats = {"evaluations": 0, "labels": {}, "samples": [], "distinct": set(), "failures": []}
SPLITS = ["<text:", "<<", "ab", "\n", "xyzxyz", "aab"]


def label(l):
    stats["labels"][l] = stats["labels"].get(l, 0) + 1


def limits():
    resource.setrlimit(resource.RLIMIT_CPU, (60, 62))


def build(filler, length, split, placements, tail):
    b = bytearray(bytes(filler) * (length // max(1, len(filler)) + 1))[:length]
    s = split.encode("latin1") if split else b""
    for (k, d, overlap) in placements:
        pos = BLOCK * k + d
        piece = (s[:1] + s) if overlap else s
        if pos < 0:
            continue
        if pos + len(piece) > len(b):
            b.extend(bytes(filler[:1]) * (pos + len(piece) - len(b)))
        b[pos:pos + len(piece)] = piece
    if tail and s:
        b.extend(s[:tail])
    return bytes(b)


def opts(case):
    o = []
    if case["split"]:
        o += ["-s", case["split"]]
    if case["manual"]:
        o += ["-m"]
    if case["comp"]:
        o += ["--compression-format", case["comp"]]
    if case["uncomp"]:
        o += ["-u"]
    return o


def zck_file(case, data, name):
    d = os.path.join(WORK, "case")
    open(os.path.join(d, name + ".dat"), "wb").write(data)
    p = subprocess.run([os.path.join(TOOLS, "zck")] + opts(case) + ["-o", name + ".zck", name + ".dat"], cwd=d, stdin=subprocess.DEVNULL, stdout=subprocess.PIPE, stderr=subprocess.PIPE, preexec_fn=limits)
    return p.returncode, p.stderr.decode("latin1")[-300:]


def zck_fifo(case, data, name, pieces):
    """feed `data` through a FIFO in the given piece sizes (cyclic); every piece is written only after the previous one was read"""
    d = os.path.join(WORK, "case"); fifo = os.path.join(d, name + ".fifo")
    os.mkfifo(fifo)
    p = subprocess.Popen([os.path.join(TOOLS, "zck")] + opts(case) + ["-o", name + ".zck", name + ".fifo"], cwd=d, stdin=subprocess.DEVNULL, stdout=subprocess.PIPE, stderr=subprocess.PIPE, preexec_fn=limits)
    ok = True
    try:
        fd = os.open(fifo, os.O_WRONLY)
        off = 0; k = 0; buf = bytearray(4)
        while off < len(data):
            n = max(1, min(pieces[k % len(pieces)], 60000)); k += 1
            chunk = data[off:off + n]; os.write(fd, chunk); off += len(chunk)
            t0 = time.time()
            while True:                                     # wait until the reader has taken everything
                fcntl.ioctl(fd, termios.FIONREAD, buf)
                if struct.unpack("i", bytes(buf))[0] == 0:
                    break
                if p.poll() is not None or time.time() - t0 > 30:
                    ok = False; break
                time.sleep(0.0002)
            if not ok:
                break
        os.close(fd)
    except BrokenPipeError:
        ok = False
    out, err = p.communicate(timeout=120)
    return (p.returncode if ok else (p.returncode or 99)), err.decode("latin1")[-300:]


def chunk_table(name):
    """[(checksum, start, comp size, size)] from zck_read_header -c"""
    d = os.path.join(WORK, "case")
    p = subprocess.run([os.path.join(TOOLS, "zck_read_header"), "-c", name + ".zck"], cwd=d, stdin=subprocess.DEVNULL, stdout=subprocess.PIPE, stderr=subprocess.PIPE, preexec_fn=limits)
    if p.returncode != 0:
        return None
    rows = []
    for line in p.stdout.decode("latin1").splitlines():
        f = line.split()
        if len(f) >= 5 and f[0].isdigit() and all(x.isdigit() for x in f[-3:]):
            rows.append((f[1], int(f[-3]), int(f[-2]), int(f[-1])))
    return rows


def check_case(case):
    d = os.path.join(WORK, "case")
    shutil.rmtree(d, ignore_errors=True); os.makedirs(d)
    data = build(case["filler"], case["length"], case["split"], case["placements"], case["tail"])
    if case.get("rand_seed") is not None:          # non-periodic content: boundaries come from the rolling hash alone
        import random as _r
        data = _r.Random(case["rand_seed"]).randbytes(case["length"]); label("random-content" + ("<=32KiB" if len(data) <= BLOCK else ""))
    rc, err = zck_file(case, data, "file")
    if rc != 0:
        label("zck-refuses"); return None
    # 1. segmentation independence (regular file vs FIFO pieces)
    rc2, err2 = zck_fifo(case, data, "pipe", case["pieces"])
    if rc2 != 0:
        return ("fifo-run-fails", "zck succeeds on the regular file but fails when the same content arrives through a FIFO in pieces %s (status %s): %s" % (case["pieces"][:6], rc2, err2[-200:]))
    a = open(os.path.join(d, "file.zck"), "rb").read(); b = open(os.path.join(d, "pipe.zck"), "rb").read()
    if a != b:
        ta, tb = chunk_table("file"), chunk_table("pipe")
        return ("read-segmentation-dependent", "the same content and options give different archives when read in 32 KiB blocks (%d bytes, %s chunks) and in pieces %s (%d bytes, %s chunks); chunk sizes %s vs %s" % (
            len(a), len(ta or []), case["pieces"][:6], len(b), len(tb or []), [r[3] for r in (ta or [])][:8], [r[3] for r in (tb or [])][:8]))
    label("file==fifo")
    # 2. locality under -s: P1+S vs P2+S with S starting at the split string
    if case["split"]:
        s = case["split"].encode("latin1")
        S = s + data
        # prefixes must not end in something that makes the tool's matcher enter S in a partial-match state
        safe = bytes([c for c in range(256) if c not in s][:1]) or b"\x00"
        P1 = bytes(case["filler"][:1]) * case["p1"] + safe; P2 = bytes(case["filler"][:1]) * case["p2"] + safe
        r1, _ = zck_file(case, P1 + S, "s1"); r2, _ = zck_file(case, P2 + S, "s2")
        if r1 == 0 and r2 == 0:
            t1, t2 = chunk_table("s1"), chunk_table("s2")
            if t1 is None or t2 is None:
                return None
            st1 = {r[1] - t1[0][1] - 0: i for i, r in enumerate(t1)}
            # content offset of each chunk start
            def starts(t):
                off = 0; res = []
                for i, r in enumerate(t):
                    res.append(off); off += r[3] if i > 0 else 0
                return res
            o1, o2 = starts(t1), starts(t2)
            # the chunk that starts exactly at S in each output
            try:
                i1 = o1.index(len(P1), 1); i2 = o2.index(len(P2), 1)
            except ValueError:
                return ("suffix-start-missing", "with -s %r -m no chunk starts at the first occurrence of the split string (content offsets %d / %d); chunk starts %s / %s" % (case["split"], len(P1), len(P2), o1[:8], o2[:8]))
            tail1 = [(r[0], r[2], r[3]) for r in t1[i1:]]; tail2 = [(r[0], r[2], r[3]) for r in t2[i2:]]
            if tail1 != tail2:
                k = 0
                while k < len(tail1) and k < len(tail2) and tail1[k] == tail2[k]:
                    k += 1
                return ("suffix-locality", "contents P1+S and P2+S (|P1|=%d, |P2|=%d, S starts with the split string) both start a chunk at S, but their chunk lists differ from chunk %d of the shared suffix on: sizes %s vs %s" % (
                    len(P1), len(P2), k, [x[2] for x in tail1[k:k + 4]], [x[2] for x in tail2[k:k + 4]]))
            label("suffix-compared")
    return None


def describe(case):
    return "len=%d split=%r placements=%s tail=%d manual=%s comp=%s uncomp=%s pieces=%s p1=%d p2=%d" % (
        case["length"], case["split"], case["placements"], case["tail"], case["manual"], case["comp"], case["uncomp"], case["pieces"][:6], case["p1"], case["p2"])


def write_replay(case, sig, msg):
    d = os.path.join(A.replaydir, "C16"); os.makedirs(d, exist_ok=True)
    h = hashlib.sha1(json.dumps(case, sort_keys=True).encode()).hexdigest()[:16]
    p = os.path.join(d, h + ".json")
    json.dump({"property": "C16", "sig": sig, "msg": msg, "desc": describe(case), "case": case}, open(p, "w"), indent=1)
    return p


def finish(rc):
    if A.counters:
        json.dump({"property": "C16", "seed": A.seed, "evaluations": stats["evaluations"], "inner_evaluations": 0, "discards": 0, "known_hits": 0,
                   "distinct_by_construction": 0, "exhaustive": False, "exhaustive_note": "", "labels": stats["labels"], "samples": stats["samples"][:8],
                   "failures": stats["failures"], "distinct": sorted(stats["distinct"])}, open(A.counters, "w"))
    shutil.rmtree(WORK, ignore_errors=True)
    sys.exit(rc)


if A.replay:
    case = json.load(open(A.replay))["case"]
    r = check_case(case)
    if r:
        print("REPLAY-FAIL property=C16 file=%s sig=%s msg=%s" % (A.replay, r[0], r[1]))
        stats["failures"].append({"sig": r[0], "msg": r[1], "replay": A.replay, "known": False})
        finish(1)
    print("REPLAY-PASS property=C16 file=%s" % A.replay)
    finish(0)

from hypothesis import given, settings, seed, strategies as st, HealthCheck, Phase  # noqa: E402


@st.composite
def cases(draw):
    split = draw(st.one_of(st.none(), st.sampled_from(SPLITS), st.sampled_from(SPLITS), st.text(alphabet="ab<:\nxyz-", min_size=1, max_size=6)))
    s = split or "<text:"
    kind = draw(st.integers(0, 3))
    if kind == 0:
        filler = list(draw(st.binary(min_size=1, max_size=40)))
    elif kind == 1:
        filler = [ord(ch) for ch in s[:-1]] or [120]
    elif kind == 2:
        filler = list(draw(st.binary(min_size=200, max_size=3000)))
    else:
        filler = [ord(draw(st.sampled_from(list("abxyz\n< "))))]
    length = draw(st.one_of(st.integers(0, 300), st.integers(BLOCK - 10, BLOCK + 10), st.integers(2 * BLOCK - 10, 2 * BLOCK + 10), st.integers(0, 3 * BLOCK)))
    placements = draw(st.lists(st.tuples(st.integers(0, 2), st.integers(-(len(s) + 1), 2), st.booleans()), max_size=5)) if split else []
    tail = draw(st.integers(0, len(s) - 1)) if split and draw(st.booleans()) else 0
    pieces = draw(st.one_of(st.lists(st.integers(1, 9), min_size=1, max_size=4).map(lambda v: [x * 1000 + 7 for x in v]), st.lists(st.sampled_from([1, 2, 5, 4095, 4096, 4097, 32767, 32768, 32769, 50000]), min_size=1, max_size=5),
                            st.just([BLOCK - 3]), st.just([BLOCK + 1]), st.lists(st.integers(2000, 40000), min_size=1, max_size=4)))
    rand_seed = None
    if draw(st.integers(0, 4)) == 0:     # a file of random bytes, small enough for one read block or a few blocks long, default options
        rand_seed = draw(st.integers(0, 10 ** 6)); length = draw(st.one_of(st.integers(8193, BLOCK), st.integers(8193, BLOCK), st.integers(BLOCK + 1, 6 * BLOCK)))
        if draw(st.integers(0, 2)) > 0:
            split = None; placements = []; tail = 0
    return {"rand_seed": rand_seed, "split": split, "filler": filler, "length": length, "placements": [list(p) for p in placements], "tail": tail, "manual": draw(st.booleans()) and not (rand_seed is not None and draw(st.booleans())),
            "comp": draw(st.sampled_from([None, "none", "zstd"])), "uncomp": draw(st.integers(0, 5)) == 0, "pieces": pieces,
            "p1": draw(st.integers(0, 40)), "p2": draw(st.one_of(st.integers(0, 40), st.integers(BLOCK - 8, BLOCK + 2)))}


N = A.cases or (40 if A.tier == "quick" else 600)
failure = []


@seed(A.seed)
@settings(max_examples=N, database=None, deadline=None, report_multiple_bugs=False, suppress_health_check=list(HealthCheck), phases=[Phase.generate, Phase.shrink])
@given(cases())
def prop(case):
    stats["evaluations"] += 1
    key = int(hashlib.sha1(json.dumps(case, sort_keys=True).encode()).hexdigest()[:15], 16)
    if case["split"] and case["placements"]:
        stats["distinct"].add(key)
    if case["split"]:
        label("split-string")
    if case["placements"]:
        label("placed-at-block-edge")
    if len(stats["samples"]) < 8:
        stats["samples"].append(describe(case))
    r = check_case(case)
    if r:
        failure[:] = [(case, r)]
        raise AssertionError(r[0] + ": " + r[1])


try:
    prop()
except AssertionError:
    case, (sig, msg) = failure[0]
    conf = sum(1 for _ in range(3) if check_case(case))
    if conf >= 2:
        p = write_replay(case, sig, msg)
        stats["failures"].append({"sig": sig, "msg": msg + " [" + describe(case) + "]", "replay": p, "known": False})
        print("FAILURE property=C16 sig=%s replay=%s msg=%s" % (sig, p, msg))
        finish(1)
    label("unreproducible-" + sig)
finish(0)
