// C15  A unit-decoded chunk is verified before any of its bytes are released.
//
// Generated: a zstd file with 2..6 data chunks (incompressible content is stored by zstd as raw
// blocks, so almost every flip still decodes; compressible content too), optional dictionary;
// the bad chunk (dictionary / first / middle / last); a cyclic list of read sizes (< = > the
// chunk).  For the chosen chunk EVERY single-bit flip of EVERY stored byte is tried
// (exhaustive), plus a variant where the body is intact and the index digest is changed (header
// re-sealed).  The reference classifies each flip into "still decodes" / "does not".
// Oracle: concatenation of the bytes returned by successful zck_read calls is a prefix of
// D[0, start of the bad chunk); the stream never ends "successfully" (a 0 return while bytes of
// the bad chunk are still outstanding is an error indication only if no byte was released, so
// it is accepted; success of zck_close is C02's business); after the first error no later
// read returns bytes that are a slice of the bad chunk's (corrupted or original) decoding.
#include "pbt/pbt.hpp"
#include "ref/zckref.hpp"
#include "lib/zcklib.hpp"
#include "gen/gens.hpp"

using pbt::Ctx; using pbt::Bytes;

static bool contains(const Bytes &hay, const char *p, size_t n) {
    if (n == 0 || hay.size() < n) return false;
    return memmem(hay.data(), hay.size(), p, n) != nullptr;
}

// decode a (possibly corrupted) zstd frame with a generous output bound; true if zstd accepts it
static bool try_decode(const uint8_t *src, size_t n, const Bytes *dict, Bytes &out) {
    out.assign(std::max<size_t>(1 << 16, n * 2 + 4096), 0); ZSTD_DCtx *d = ZSTD_createDCtx(); size_t rv;
    if (dict && !dict->empty()) rv = ZSTD_decompress_usingDict(d, out.data(), out.size(), src, n, dict->data(), dict->size());
    else rv = ZSTD_decompressDCtx(d, out.data(), out.size(), src, n);
    ZSTD_freeDCtx(d);
    if (ZSTD_isError(rv)) { out.clear(); return false; }
    out.resize(rv); return true;
}

// a slice of the bad chunk's decoding that cannot have come from anywhere else in the content
static bool only_from_bad(const Bytes &D, size_t bad_start, size_t bad_len, bool bad_is_dict, const Bytes &orig_plain, const Bytes &corrupt_plain, const char *p, size_t n) {
    if (n == 0) return false;
    if (!contains(orig_plain, p, n) && !contains(corrupt_plain, p, n)) return false;
    // the same bytes also occur outside the bad chunk: returning them proves nothing
    if (bad_is_dict) return !contains(D, p, n);
    Bytes before(D.begin(), D.begin() + std::min(bad_start, D.size()));
    Bytes after(D.begin() + std::min(bad_start + bad_len, D.size()), D.end());
    return !contains(before, p, n) && !contains(after, p, n);
}

// History on the context before the first read (the property quantifies over histories):
//   0 none; 1 zck_find_matching_chunks(good copy, this) first (marks the chunk "valid" because an
//   equal digest exists elsewhere); 2/3 the context is opened on the intact file, a validity scan
//   (zck_validate_checksums / zck_find_valid_chunks) succeeds, THEN the stored byte is damaged in
//   place; the read that follows must still verify the bytes it actually decodes.
// After the first error: 0 keep reading; 1 zck_clear_error() then keep reading with the same
//   sizes; 2 zck_clear_error() then small reads (<= chunk).
struct Hist { int pre = 0; int post = 0; };

// returns "" or failure text
static std::string run_one(const Bytes &file, const Bytes &good, size_t flip_off, const Bytes &D, size_t bad_start, size_t bad_len, bool bad_is_dict, const Bytes &orig_plain, const Bytes &corrupt_plain,
                           const std::vector<size_t> &sizes, const Hist &hs, std::string *sig, bool *saw_error) {
    bool late_damage = (hs.pre == 2 || hs.pre == 3 || hs.pre == 4) && flip_off != (size_t)-1;
    int fd = lib::mkfd(late_damage ? good : file); zckCtx *z = zck_create(); std::string out;
    if (!zck_init_read(z, fd)) { zck_free(&z); close(fd); *saw_error = true; return out; }   // refusing to open is a clean error
    zckCtx *src = nullptr; int sfd = -1;
    if (hs.pre == 1) {
        sfd = lib::mkfd(good); src = zck_create();
        if (zck_init_read(src, sfd)) zck_find_matching_chunks(src, z);
        zck_clear_error(z);
    } else if (late_damage) {
        int v = hs.pre == 2 ? zck_validate_checksums(z) : hs.pre == 3 ? (int)zck_find_valid_chunks(z) : zck_validate_data_checksum(z);
        if (v != 1) { *sig = "intact-file-not-valid"; out = "validity scan of the intact file returned " + std::to_string(v); }
        uint8_t b = file[flip_off];
        if (pwrite(fd, &b, 1, flip_off) != 1) abort();
    }
    else if (hs.pre >= 2) {
        // the file is already the altered one (index checksum changed, body intact): a validation first - whatever it answers, and
        // the whole-data checksum does still match - then the read; the error a failed validation leaves behind is cleared
        int v = hs.pre == 2 ? zck_validate_checksums(z) : hs.pre == 3 ? (int)zck_find_valid_chunks(z) : zck_validate_data_checksum(z); (void)v;
        if (zck_is_error(z) && !zck_clear_error(z)) { zck_free(&z); close(fd); *saw_error = true; return out; }
    }
    Bytes got; std::vector<char> buf; size_t k = 0; bool errored = false; int after = 0;
    for (int guard = 0; out.empty() && guard < 200000; guard++) {
        size_t n = sizes[k++ % sizes.size()];
        if (errored && hs.post == 2) n = 1 + (n + after * 7) % std::max<size_t>(1, bad_len);
        if (buf.size() < n) buf.resize(n);
        ssize_t r = zck_read(z, buf.data(), n);
        if (!errored) {
            if (r < 0) { errored = true; if (hs.post) zck_clear_error(z); continue; }
            if (r == 0) break;
            got.insert(got.end(), buf.data(), buf.data() + r);
            if (got.size() > bad_start) {
                *sig = "released-bad-chunk";
                out = "successful reads returned " + std::to_string(got.size()) + " bytes, but only the first " + std::to_string(bad_start) + " precede the chunk whose stored bytes do not match its checksum (read #" + std::to_string(k) + " of size " + std::to_string(n) + " returned " + std::to_string(r) + ")";
                break;
            }
        } else {
            if (++after > 6) break;
            if (r < 0 && hs.post) zck_clear_error(z);
            if (r >= 1 && only_from_bad(D, bad_start, bad_len, bad_is_dict, orig_plain, corrupt_plain, buf.data(), r) && (r >= 4 || bad_len < 4)) {
                *sig = "released-after-error"; out = "read #" + std::to_string(after) + " after the error" + (hs.post ? " (error cleared with zck_clear_error)" : "") + " returned " + std::to_string(r) + " bytes of the bad chunk's data"; break;
            }
        }
    }
    if (out.empty() && !got.empty() && (got.size() > D.size() || memcmp(got.data(), D.data(), got.size()) != 0)) { *sig = "prefix-wrong"; out = "bytes returned before the error are not a prefix of the original content"; }
    *saw_error = errored;
    if (src) zck_free(&src); if (sfd >= 0) close(sfd);
    zck_free(&z); close(fd);
    return out;
}

static void prop(Ctx &c) {
    gen::ZFileOpts o; o.force_comp = ZCK_COMP_ZSTD; o.max_chunks = 6; o.max_chunk = c.tier ? 900 : 300; o.allow_dups = c.gver >= 4 && c.rarely(3); o.allow_empty = false; o.allow_uncomp = true; o.allow_empty_stored = false;    // a chunk without data has nothing to release
    // an eighth of the cases: one chunk larger than the library's 32 KiB buffers or than zstd's 128 KiB block (flips sampled, not enumerated)
    bool large = c.gver >= 2 && c.rarely(8); if (large) { o.big_rate = 1; o.big_huge = true; o.max_chunks = 3; }
    gen::ZFile z = gen::zfile(c, o);
    size_t n = z.nchunks();
    bool has_dict = !z.plain[0].empty();
    // which chunk is bad
    size_t bad; uint64_t k = c.draw(3);
    bad = k == 0 ? 1 : k == 1 ? n - 1 : k == 2 && has_dict ? 0 : 1 + c.pick(n - 1);
    // a chunk that occurs more than once in the index: the later copy is the bad one
    if (c.gver >= 4 && !large) { for (size_t i = n - 1; i >= 2; i--) { bool dup = false; for (size_t j = 1; j < i; j++) if (z.h.entries[j].digest == z.h.entries[i].digest) dup = true; if (dup && c.chance(2, 3)) { bad = i; c.label("bad=later-duplicate"); break; } } }
    if (large) { for (size_t i = 1; i < n; i++) if (z.clen(i) > z.clen(bad) || bad == 0) bad = i; c.label(z.clen(bad) > 131072 ? "bad-chunk>128KiB" : z.clen(bad) > 32768 ? "bad-chunk>32KiB" : "bad-chunk-small"); }
    size_t plain_start = 0; for (size_t i = 1; i < bad; i++) plain_start += z.plain[i].size();
    if (bad == 0) plain_start = 0;
    size_t plen = z.plain[bad].size();
    std::vector<size_t> sizes; size_t ns = 1 + c.draw(2);
    for (size_t i = 0; i < ns; i++) {
        static const int rel[] = {-1, 0, 1};
        switch (c.draw(5)) {
        case 0: sizes.push_back(1 + c.draw(6)); break;
        case 1: sizes.push_back(std::max<size_t>(1, plen + rel[c.pick(3)])); break;
        case 2: sizes.push_back(std::max<size_t>(1, plen / 2)); break;
        case 3: sizes.push_back(100000); break;
        default: sizes.push_back(1 + c.draw(2 * plen + 10)); break;
        }
    }
    if (large) for (auto &x : sizes) if (x < 512) x = 4096;          // tiny reads of a large file are quadratic in the library
    bool small_read = false; for (auto s : sizes) if (s < plen) small_read = true;
    Hist hs; { uint64_t a = c.draw(c.gver >= 4 ? 6 : 5); hs.pre = a <= 2 ? 0 : (int)a - 2; hs.post = (int)c.draw(2); }
    if (bad == 0 && hs.pre >= 2) hs.pre = 1;   // the dictionary is decoded once, at open: damaging it afterwards is not "reading a chunk whose stored bytes do not match"
    static const char *pren[] = {"none", "match-against-good-copy", "validate_checksums-then-damage", "find_valid_chunks-then-damage", "validate_data_checksum-then-damage"}, *postn[] = {"keep-reading", "clear_error+reads", "clear_error+small-reads"};
    c.desc << z.desc << " bad-chunk=" << bad << (bad == 0 ? "(dict)" : bad == n - 1 ? "(last)" : bad == 1 ? "(first)" : "(middle)") << " reads=" << gen::sizes_str(sizes) << " before=" << pren[hs.pre] << " after-error=" << postn[hs.post];
    c.label(std::string("pre=") + pren[hs.pre]); c.label(std::string("post=") + postn[hs.post]);
    c.label(bad == 0 ? "bad=dict" : bad == n - 1 ? "bad=last" : bad == 1 ? "bad=first" : "bad=middle"); if (small_read) c.label("read<chunk");
    // when the dictionary is the bad chunk nothing at all may be released
    size_t bad_start = bad == 0 ? 0 : plain_start;
    size_t off = z.off(bad), cl = z.clen(bad);
    uint64_t evals = 0, decodes = 0, nontriv = 0; std::string sig; bool saw_error = false;
    Bytes f = z.file;
    Bytes dictb = z.plain[0];
    // large chunk: 70 sampled flips (the zstd frame header, the last bytes, block edges, random positions) instead of all of them
    std::vector<std::pair<size_t, int>> flips;
    if (cl > 6000) { for (size_t b = 0; b < 12 && b < cl; b++) flips.push_back({b, (int)c.draw(7)}); for (size_t b = 1; b <= 6; b++) flips.push_back({cl - b, (int)c.draw(7)});
        for (size_t e : {(size_t)32767, (size_t)32768, (size_t)65536, (size_t)131071, (size_t)131072, (size_t)131085}) if (e < cl) flips.push_back({e, (int)c.draw(7)});
        while (flips.size() < 70) flips.push_back({(size_t)c.draw(cl - 1), (int)c.draw(7)}); }
    else for (size_t byte = 0; byte < cl; byte++) for (int bit = 0; bit < 8; bit++) flips.push_back({byte, bit});
    for (auto &fl : flips) { size_t byte = fl.first; int bit = fl.second;
        f[off + byte] ^= (uint8_t)(1u << bit);
        Bytes cp; std::string why;
        bool dec = try_decode(f.data() + off, cl, bad == 0 ? nullptr : &dictb, cp);
        evals++; if (dec) decodes++; if (dec && small_read) nontriv++;
        std::string e = run_one(f, z.file, off + byte, z.D, bad_start, plen, bad == 0, z.plain[bad], cp, sizes, hs, &sig, &saw_error);
        if (!e.empty()) { c.extra_evals = evals; c.fail(sig, e + " [flip byte " + std::to_string(byte) + " bit " + std::to_string(bit) + " of chunk " + std::to_string(bad) + (dec ? ", still decodes" : ", does not decode") + "]"); }
        if (!saw_error) { c.extra_evals = evals; c.fail("no-error", "every read succeeded although chunk " + std::to_string(bad) + " does not match its checksum [flip byte " + std::to_string(byte) + " bit " + std::to_string(bit) + "]"); }
        f[off + byte] ^= (uint8_t)(1u << bit);
    }
    // body intact, index digest changed and header re-sealed: the chunk's stored bytes do not match its index checksum
    {
        ref::Header h2 = z.h; bool zero_digest = c.gver >= 4 && c.rarely(3);
        if (zero_digest) { std::fill(h2.entries[bad].digest.begin(), h2.entries[bad].digest.end(), 0); c.label("index-digest-all-zero"); }      // an all-zero checksum is how an EMPTY chunk is listed; for a chunk that stores bytes it is just a wrong checksum
        else h2.entries[bad].digest[c.pick(h2.entries[bad].digest.size())] ^= (uint8_t)(1 + c.draw(254));
        Bytes hdr = ref::emit_header(h2); Bytes g = hdr; g.insert(g.end(), z.file.begin() + z.h.total_size, z.file.end());
        if (hdr.size() == z.h.total_size) {
            evals++; if (small_read) nontriv++;
            std::string e = run_one(g, z.file, (size_t)-1, z.D, bad_start, plen, bad == 0, z.plain[bad], z.plain[bad], sizes, hs, &sig, &saw_error);
            if (!e.empty()) { c.extra_evals = evals; c.fail(sig, e + " [index digest of chunk " + std::to_string(bad) + " altered, header re-sealed]"); }
            if (!saw_error) { c.extra_evals = evals; c.fail("no-error", "every read succeeded although the index digest of chunk " + std::to_string(bad) + " was altered"); }
            c.label("digest-variant");
        }
    }
    // the chunk-access route: zck_get_chunk_data() is a read call too.  Asked for the bad chunk (on the full file, and - for the
    // dictionary - on a detached header, which holds nothing but header + dictionary chunk) it must not hand out decompressed bytes.
    if (c.gver >= 4) {
        std::vector<std::pair<size_t, int>> some; for (size_t t = 0; t < 24 && t < flips.size(); t++) some.push_back(flips[(t * 2654435761u + bad) % flips.size()]);
        for (int detached = 0; detached < 2; detached++) {
            if (detached && (bad != 0 || !has_dict)) continue;
            for (auto &fl : some) {
                Bytes g = z.file; if (detached) { g.resize(z.h.total_size + z.clen(0)); memcpy(g.data(), "\0ZHR1", 5); }
                g[off + fl.first] ^= (uint8_t)(1u << fl.second); Bytes cp; if (!try_decode(g.data() + off, cl, bad == 0 ? nullptr : &dictb, cp)) continue;      // flips zstd refuses cannot release anything
                int fd = lib::mkfd(g); zckCtx *zc = zck_create(); evals++;
                if (zck_init_read(zc, fd)) { zckChunk *ch = zck_get_chunk(zc, bad); std::vector<char> b(plen + 1);
                    for (int rep = 0; rep < 2 && ch; rep++) { ssize_t r = zck_get_chunk_data(ch, b.data(), plen);
                        if (r > 0) { zck_free(&zc); close(fd); c.extra_evals = evals; c.fail("released-bad-chunk", std::string("zck_get_chunk_data(chunk ") + std::to_string(bad) + ")" + (detached ? " on the detached header" : "") + " returned " + std::to_string(r) + " bytes although the chunk's stored bytes do not match its checksum [flip byte " + std::to_string(fl.first) + " bit " + std::to_string(fl.second) + ", still decodes" + (rep ? ", second request" : "") + "]"); }
                        if (r < 0) (void)!zck_clear_error(zc); } }
                zck_free(&zc); close(fd);
            }
            c.label(detached ? "chunk-access:detached-header" : "chunk-access");
        }
    }
    c.desc << " flips=" << evals << " still-decoding=" << decodes;
    c.extra_evals = evals; c.extra_distinct = nontriv; if (nontriv) c.nontrivial();
    if (decodes) c.label("some-flips-decode");
}

PBT_MAIN("C15", prop, nullptr)
