// C03  Memory safety and termination on arbitrary file input.
//
// Generated input file (four modes):
//   sealed  - header fields from a generator (any value in any integer, any encoded length, raw
//             unterminated/over-long integers, length fields pointing at/over the end, optional
//             elements, flag combinations, 0..N entries, count independent of entries), ALWAYS
//             sealed with a correct header checksum so that parsing proceeds past the gate;
//             body = arbitrary bytes;
//   derived - a valid file whose real header is field-mutated and re-sealed (body still lines up);
//   raw     - a valid file with raw byte mutations / truncation (mostly stopped at the gate);
//   noise   - arbitrary bytes.
// A second file (valid, or generated the same way) serves as delta source / target.
// Then a generated script of public API calls runs on the opened context: all getters, zck_read
// with generated sizes, the three validators, chunk data / stored data by number, missing-range
// computation and rendering, chunk copy and chunk matching in both directions, close, free.
// Oracle: the runner executes every case in a forked child under ASan+UBSan with a CPU-time
// limit; any sanitizer report, signal or CPU overrun is attributed to the case, re-confirmed in
// isolation and reported.  Optionally (thorough tier mostly) the same bytes are given to the
// ASan builds of unzck, zck_read_header, zck_delta_size, zck_gen_zdict.
#include "pbt/pbt.hpp"
#include "ref/zckref.hpp"
#include "ref/fields.hpp"
#include "lib/zcklib.hpp"
#include "gen/gens.hpp"
#include "gen/mutate.hpp"
#include <sys/stat.h>

using pbt::Ctx; using pbt::Bytes;

static const size_t ALLOC_CAP = 64u << 20;     // declared sizes above this are not materialised by the harness itself

struct Input { Bytes file; std::string desc; bool gate_passed = false; };

static ref::Header synth_header(Ctx &c) {
    ref::Header h; h.detached = c.rarely(4);
    h.hash_type = c.draw(3); h.chunk_hash_type = c.draw(3);
    h.flags = 0; if (c.rarely(3)) h.flags |= 4; if (c.rarely(3)) h.flags |= 2;
    h.comp_type = c.boolean() ? 2 : 0;
    if (h.flags & 2) { size_t n = c.draw(3); for (size_t i = 0; i < n; i++) { ref::OptElem e; e.id = c.draw(300); e.data = c.bytes(c.draw(12)); h.opt.push_back(e); } }
    h.data_digest = c.bytes(ref::digest_size(h.hash_type));
    size_t n = c.rarely(6) ? 0 : 1 + c.draw(8); int cds = ref::digest_size(h.chunk_hash_type);
    for (size_t i = 0; i < n; i++) {
        ref::Entry e; e.digest = c.bytes(cds); if (h.flags & 4) e.udigest = c.bytes(cds);
        e.comp_len = c.rarely(5) ? (uint64_t)gen::boundary_value(c) : c.skewed(5000); e.len = c.rarely(5) ? (uint64_t)gen::boundary_value(c) : c.skewed(20000);
        h.entries.push_back(e);
    }
    h.count = n; return h;
}

static Input gen_input(Ctx &c, const gen::ZFile *base) {
    Input in; uint64_t mode = c.draw(10);
    if (mode == 10 && base) {
        // a checksum-valid zstd file whose dictionary chunk decodes to something zstd itself refuses to load:
        // the dictionary magic 37 A4 30 EC followed by arbitrary bytes (or a truncated real dictionary)
        ref::WriteSpec w; w.comp = ref::COMP_ZSTD; w.hash_type = (int)base->h.hash_type; w.chunk_hash_type = (int)base->h.chunk_hash_type; w.level = 1;
        w.dict = {0x37, 0xA4, 0x30, 0xEC}; Bytes junk = c.bytes(c.draw(200)); w.dict.insert(w.dict.end(), junk.begin(), junk.end());
        for (size_t i = 1; i < base->plain.size(); i++) w.chunks.push_back(base->plain[i]);
        in.file = ref::write(w).file; in.desc = "valid zstd file whose dictionary chunk holds the zstd dictionary magic + " + std::to_string(junk.size()) + " arbitrary bytes";
        ref::ParseResult pr = ref::parse(in.file); in.gate_passed = pr.h.checksum_ok; return in;
    }
    if (mode <= 3 || !base) {
        ref::Fields F = ref::fields_from(synth_header(c)); std::string md; size_t nm = c.draw(2);
        for (size_t i = 0; i < nm; i++) md += gen::mutate_field(c, F) + "; ";
        in.file = ref::emit(F); Bytes body = c.bytes(c.skewed(3000)); in.file.insert(in.file.end(), body.begin(), body.end());
        in.desc = "sealed synthetic header, mutations{" + md + "} body=" + std::to_string(body.size());
    } else if (mode <= 7) {
        ref::Fields F = ref::fields_from(base->h); std::string md; size_t nm = c.chance(1, 8) ? 0 : c.chance(3, 4) ? 1 : 2;
        for (size_t i = 0; i < nm; i++) md += gen::mutate_field(c, F) + "; ";
        in.file = ref::emit(F); in.file.insert(in.file.end(), base->file.begin() + base->h.total_size, base->file.end());
        if (c.rarely(4)) md += gen::mutate_raw(c, in.file, 0) + " (raw, after sealing); ";
        in.desc = "valid file {" + base->desc + "} re-sealed with mutations{" + md + "}";
    } else if (mode == 8) {
        in.file = base->file; std::string md; size_t nm = 1 + c.draw(2);
        for (size_t i = 0; i < nm; i++) md += gen::mutate_raw(c, in.file, base->h.total_size) + "; ";
        if (c.boolean()) ref::reseal(in.file);
        in.desc = "valid file {" + base->desc + "} raw mutations{" + md + "}";
    } else { in.file = c.bytes(c.skewed(400)); if (c.boolean() && in.file.size() >= 5) memcpy(in.file.data(), "\0ZCK1", 5); in.desc = "noise " + std::to_string(in.file.size()) + "B"; }
    ref::ParseResult pr = ref::parse(in.file);
    in.gate_passed = pr.h.checksum_ok;
    return in;
}

static void getters(zckCtx *z) {
    (void)!zck_get_flags(z); (void)!zck_get_full_hash_type(z); (void)!zck_get_full_digest_size(z); (void)!zck_get_chunk_hash_type(z); (void)!zck_get_chunk_digest_size(z);
    (void)!zck_get_lead_length(z); (void)!zck_get_header_length(z);
    if (zck_get_first_chunk(z)) { (void)!zck_get_data_length(z); (void)!zck_get_length(z); }
    free(zck_get_header_digest(z)); free(zck_get_data_digest(z)); (void)!zck_is_detached_header(z); (void)!zck_get_chunk_count(z);
    (void)!zck_missing_chunks(z); (void)!zck_failed_chunks(z); (void)!zck_is_error(z); (void)zck_get_error(z);
    size_t n = 0;
    for (zckChunk *ch = zck_get_first_chunk(z); ch && n < 100000; ch = zck_get_next_chunk(ch), n++) {
        (void)!zck_get_chunk_number(ch); (void)!zck_get_chunk_start(ch); (void)!zck_get_chunk_size(ch); (void)!zck_get_chunk_comp_size(ch); (void)!zck_get_chunk_valid(ch);
        free(zck_get_chunk_digest(ch)); free(zck_get_chunk_digest_uncompressed(ch)); (void)!zck_get_src_chunk(ch);
    }
}

static std::string run_tool(const std::string &tool, const std::vector<std::string> &args, int cpu, std::string *sig);

static void prop(Ctx &c) {
    gen::ZFileOpts o; o.max_chunks = 6; o.max_chunk = 1500; o.big_rate = 10; o.big_huge = c.tier != 0;    // now and then a chunk larger than the library's 32 KiB buffers
    gen::ZFile base = gen::zfile(c, o);
    Input in = gen_input(c, &base);
    // second file: valid base, or another generated input
    bool second_fuzzed = c.rarely(3);
    Input in2; if (second_fuzzed) in2 = gen_input(c, &base); else { in2.file = base.file; in2.desc = "the valid base file"; }
    c.desc << in.desc << " | second=" << (second_fuzzed ? in2.desc : "valid base");
    c.label(in.gate_passed ? "past-checksum-gate" : "stopped-at-gate");
    if (in.gate_passed) c.nontrivial(pbt::fnv1a(in.file.data(), in.file.size()));

    int fd = lib::mkfd(in.file); zckCtx *z = zck_create(); bool opened;
    if (c.boolean()) opened = zck_init_read(z, fd);
    else {
        opened = zck_init_adv_read(z, fd);
        if (opened && c.rarely(3)) { opened = zck_validate_lead(z); c.desc << " [validate_lead]"; }
        if (opened) opened = zck_read_lead(z);
        if (opened) opened = zck_read_header(z);
    }
    c.label(opened ? "opened" : "open-refused");
    std::ostringstream script; c.checkpoint();
    if (opened) {
        int fd2 = lib::mkfd(in2.file); zckCtx *z2 = zck_create(); bool opened2 = zck_init_read(z2, fd2);
        size_t nops = 1 + c.draw(11);
        for (size_t k = 0; k < nops; k++) {
            { std::string sofar = c.desc.str(); c.desc << " script so far: " << script.str(); c.checkpoint(); c.desc.str(sofar); c.desc.seekp(0, std::ios::end); }
            switch (c.draw(16)) {
            case 0: getters(z); script << "getters "; break;
            case 1: { size_t n = c.boolean() ? 1 + c.draw(70) : 1 + c.skewed(200000); std::vector<char> b(n); int reps = 1 + (int)c.draw(4);
                      for (int r = 0; r < reps; r++) { ssize_t g = zck_read(z, b.data(), n); if (g <= 0) break; } script << "read(" << n << ")x" << reps << " "; break; }
            case 2: (void)!zck_validate_checksums(z); script << "validate_checksums "; break;
            case 3: (void)!zck_find_valid_chunks(z); script << "find_valid_chunks "; break;
            case 4: (void)!zck_validate_data_checksum(z); script << "validate_data_checksum "; break;
            case 5: case 6: {
                size_t cnt = (size_t)std::max<ssize_t>(zck_get_chunk_count(z), 1); size_t i = c.draw(cnt + 1); bool stored = c.draw(13) % 2 == 0 ? false : c.boolean();
                zckChunk *ch = zck_get_chunk(z, i); script << (stored ? "comp_data(" : "chunk_data(") << i << ") ";
                if (ch) { ssize_t want = stored ? zck_get_chunk_comp_size(ch) : zck_get_chunk_size(ch);
                          if (want >= 0 && (size_t)want <= ALLOC_CAP) { std::vector<char> b((size_t)want + 1); if (stored) (void)!zck_get_chunk_comp_data(ch, b.data(), want); else (void)!zck_get_chunk_data(ch, b.data(), want); } }
                break; }
            case 7: { static const int lim[] = {-1, 0, 1, 2, 3, 7, 127, 255}; int l = lim[c.pick(8)]; zckRange *r = zck_get_missing_range(z, l); script << "missing_range(" << l << ") ";
                      if (r) { (void)!zck_get_range_count(r); if (zck_get_range_count(r) > 0) { char *s = zck_get_range_char(z, r); free(s); } zck_range_free(&r); } break; }
            // a context is used as copy *target* only while its declared total length is modest: otherwise the copy
            // legitimately creates a sparse multi-exabyte file and every later scan has to read all of it
            case 8: if (opened2 && zck_get_first_chunk(z) && zck_get_length(z) >= 0 && (size_t)zck_get_length(z) <= ALLOC_CAP) { (void)!zck_copy_chunks(z2, z); script << "copy(second->this) "; } break;
            case 9: if (opened2 && zck_get_first_chunk(z2) && zck_get_length(z2) >= 0 && (size_t)zck_get_length(z2) <= ALLOC_CAP) { (void)!zck_copy_chunks(z, z2); script << "copy(this->second) "; } break;
            case 10: if (opened2) { if (c.boolean()) (void)zck_find_matching_chunks(z2, z); else (void)zck_find_matching_chunks(z, z2); script << "find_matching "; } break;
            case 11: zck_reset_failed_chunks(z); (void)!zck_clear_error(z); script << "reset_failed+clear_error "; break;
            case 12: (void)!zck_close(z); script << "close "; break;
            case 13: {   // remaining inspection calls: digest comparison across and within contexts, hash table rebuild, owner/descriptor getters, single range text
                script << "inspect2 "; (void)zck_generate_hashdb(z); (void)!zck_get_fd(z);
                zckChunk *a = zck_get_first_chunk(z), *b = opened2 ? zck_get_first_chunk(z2) : nullptr; size_t n = 0;
                for (; a && n < 64; a = zck_get_next_chunk(a), n++) { (void)zck_get_chunk_ctx(a); (void)zck_compare_chunk_digest(a, a); if (b) { (void)zck_compare_chunk_digest(a, b); (void)zck_compare_chunk_digest(b, a); b = zck_get_next_chunk(b); } zckChunk *nx = zck_get_next_chunk(a); if (nx) (void)zck_compare_chunk_digest(a, nx); }
                char *r = zck_get_range((size_t)gen::boundary_value(c), (size_t)gen::boundary_value(c)); free(r); break; }
            case 14: {   // download context over this file: getters/setters, reset, a range set and replaced, free with and without a range
                script << "dlctx "; zckDL *d = zck_dl_init(z); if (!d) break;
                (void)!zck_dl_get_bytes_downloaded(d); (void)!zck_dl_get_bytes_uploaded(d); (void)zck_dl_get_zck(d); (void)zck_dl_get_range(d);
                zckRange *r = zck_get_first_chunk(z) ? zck_get_missing_range(z, c.boolean() ? -1 : 2) : nullptr;
                if (r) { (void)!zck_dl_set_range(d, r); (void)zck_dl_get_range(d); }
                if (c.boolean()) zck_dl_reset(d);
                if (r && c.boolean()) { std::string line = "Content-Type: multipart/byteranges; boundary=" + std::string(1 + c.draw(5), 'x') + "\r\n"; (void)!zck_header_cb((char *)line.data(), 1, line.size(), d); Bytes junk = c.bytes(c.draw(300)); if (!junk.empty()) (void)!zck_write_chunk_cb(junk.data(), 1, junk.size(), d); }
                (void)!zck_dl_set_range(d, nullptr); if (r) zck_range_free(&r); zck_dl_free(&d); break; }
            case 15: {   // the lead / header of the same bytes read once more on the same context (an application re-validating a file it keeps open)
                script << "reread "; if (lseek(fd, 0, SEEK_SET) != 0) break;
                if (c.boolean()) { (void)!zck_read_lead(z); (void)!zck_read_header(z); } else (void)!zck_validate_lead(z);
                break; }
            default: getters(z2); break;
            }
        }
        zck_free(&z2); close(fd2);
    }
    c.desc << " script: " << script.str();
    zck_free(&z); close(fd);

    // tools (ASan builds) on the same bytes
    const char *bdir = getenv("VERIF_BUILD");
    if (bdir && c.draw(c.tier ? 5 : 11) == 0) {
        char dir[128]; snprintf(dir, sizeof dir, "/dev/shm/c03-%d", (int)getpid()); mkdir(dir, 0700);
        std::string f1 = std::string(dir) + "/in.zck", f2 = std::string(dir) + "/second.zck";
        auto put = [](const std::string &p, const Bytes &b) { FILE *f = fopen(p.c_str(), "wb"); if (f) { fwrite(b.data(), 1, b.size(), f); fclose(f); } };
        put(f1, in.file); put(f2, in2.file);
        std::string tools = std::string(bdir) + "/asan/tools/"; std::string sig, e; uint64_t t = c.draw(7); std::string what;
        switch (t) {
        case 0: what = "unzck -c"; e = run_tool(tools + "unzck", {"-c", f1}, 20, &sig); break;
        case 1: what = "unzck --dict -c"; e = run_tool(tools + "unzck", {"--dict", "-c", f1}, 20, &sig); break;
        case 2: what = "unzck --header -c"; e = run_tool(tools + "unzck", {"--header", "-c", f1}, 20, &sig); break;
        case 3: what = "zck_read_header -c -f"; e = run_tool(tools + "zck_read_header", {"-c", "-f", f1}, 20, &sig); break;
        case 4: what = "zck_read_header"; e = run_tool(tools + "zck_read_header", {f1}, 20, &sig); break;
        case 5: what = "zck_delta_size in second"; e = run_tool(tools + "zck_delta_size", {f1, f2}, 20, &sig); break;
        case 6: what = "zck_delta_size second in"; e = run_tool(tools + "zck_delta_size", {f2, f1}, 20, &sig); break;
        default: what = "zck_gen_zdict"; e = run_tool(tools + "zck_gen_zdict", {"--dir", dir, f1}, 20, &sig); break;
        }
        c.label("tool:" + what.substr(0, what.find(' '))); c.desc << " tool=" << what;
        std::string cmd = std::string("rm -rf ") + dir; int rc = system(cmd.c_str()); (void)rc;
        if (sig == "oom-assert") c.label("tool-oom-assert");
        if (!e.empty()) c.fail(sig, what + ": " + e);
    }
}

// run a tool with stdout/stderr captured; violation = killed by a signal, sanitizer exit code, or CPU limit
static std::string run_tool(const std::string &tool, const std::vector<std::string> &args, int cpu, std::string *sig) {
    int efd = memfd_create("toolerr", 0);
    pid_t pid = fork();
    if (pid == 0) {
        struct rlimit rl = {(rlim_t)cpu, (rlim_t)cpu + 2}; setrlimit(RLIMIT_CPU, &rl);
        struct itimerval it; memset(&it, 0, sizeof it); setitimer(ITIMER_PROF, &it, nullptr);
        int dn = open("/dev/null", O_RDWR); dup2(dn, 0); dup2(dn, 1); dup2(efd, 2);
        std::vector<char *> av; av.push_back((char *)tool.c_str()); for (auto &a : args) av.push_back((char *)a.c_str()); av.push_back(nullptr);
        execv(tool.c_str(), av.data()); _exit(126);
    }
    int st = 0; waitpid(pid, &st, 0);
    Bytes eb = lib::fd_bytes(efd); close(efd); std::string err((const char *)eb.data(), eb.size());
    auto tailof = [&]() { size_t p = err.find("ERROR: "); if (p == std::string::npos) p = err.find("runtime error"); if (p == std::string::npos) p = err.size() > 400 ? err.size() - 400 : 0; return err.substr(p, 700); };
    if (err.find("AddressSanitizer failed to allocate") != std::string::npos && err.find("__assert_fail") != std::string::npos) { *sig = "oom-assert"; return ""; }
    if (WIFSIGNALED(st)) {
        if (WTERMSIG(st) == SIGXCPU || WTERMSIG(st) == SIGKILL) { *sig = "tool-hang"; return "did not terminate within " + std::to_string(cpu) + " s of CPU time"; }
        *sig = "tool-signal:" + std::to_string(WTERMSIG(st)); return "killed by signal " + std::to_string(WTERMSIG(st)) + ": " + tailof();
    }
    // allocation failure is not a violation: the tools assert() on calloc results, and ASan logs the refused allocation
    if (err.find("AddressSanitizer failed to allocate") != std::string::npos && err.find("__assert_fail") != std::string::npos) { *sig = "oom-assert"; return ""; }
    if (WIFEXITED(st) && WEXITSTATUS(st) == 126) { *sig = "tool-missing"; return "could not execute " + tool; }
    if (WIFEXITED(st) && (WEXITSTATUS(st) == 77 || err.find("runtime error:") != std::string::npos || err.find("ERROR: AddressSanitizer") != std::string::npos)) {
        std::string fn = "?"; { std::istringstream es(err); std::string l; while (std::getline(es, l)) { size_t in = l.find(" in "); if (l.find("    #") == std::string::npos || in == std::string::npos) continue; std::string rest = l.substr(in + 4); size_t sp = rest.find(' '); if (sp == std::string::npos) continue;
            if (rest.substr(sp + 1).find("/src/") != std::string::npos) { fn = rest.substr(0, sp); break; } } }
        *sig = "tool-san:" + fn; return "sanitizer report: " + tailof();
    }
    return "";
}

PBT_MAIN("C03", prop, nullptr)
