// C20  Compressed-integer codec: exact, bounded reads, overflow-rejecting.
//
// Oracle: ref::ci_get / ref::ci_put (exact 128-bit arithmetic, written from the format text).
// Every decode input is copied flush against a PROT_NONE page, so any read beyond the buffer
// the decoder was given is a SIGSEGV, which is caught (sigsetjmp) and reported with the case.
#include "pbt/pbt.hpp"
#include "ref/zckref.hpp"
#include "lib/zcklib.hpp"
#include <setjmp.h>
#include <limits.h>

using pbt::Ctx;

static uint8_t *g_page = nullptr;      // 16 accessible pages followed by one PROT_NONE page
static const size_t ACC = 16 * 4096;
static sigjmp_buf g_jmp; static volatile sig_atomic_t g_armed = 0;
static zckCtx *g_zck = nullptr;

static void segv(int, siginfo_t *, void *) { if (g_armed) { g_armed = 0; siglongjmp(g_jmp, 1); } signal(SIGSEGV, SIG_DFL); raise(SIGSEGV); }
static void setup() {
    if (g_page) return;
    g_page = (uint8_t *)mmap(nullptr, ACC + 4096, PROT_READ | PROT_WRITE, MAP_PRIVATE | MAP_ANONYMOUS, -1, 0);
    mprotect(g_page + ACC, 4096, PROT_NONE);
    struct sigaction sa; memset(&sa, 0, sizeof sa); sa.sa_sigaction = segv; sa.sa_flags = SA_SIGINFO | SA_NODEFER;
    sigaction(SIGSEGV, &sa, nullptr); sigaction(SIGBUS, &sa, nullptr);
    g_zck = zck_create();
}
static void reset_ctx() { if (g_zck->msg) { free(g_zck->msg); g_zck->msg = nullptr; } g_zck->error_state = 0; }

// One decode check.  `buf` (total bytes) is the whole buffer, decoding starts at `off`
// (library convention: compint == base + *length, max_length == total size).
// Returns empty string if fine, else "sig|message".
static std::string check_decode(const uint8_t *buf, size_t total, size_t off, bool as_int) {
    setup();
    uint8_t *base = g_page + ACC - total; memcpy(base, buf, total);
    ref::CiResult r = ref::ci_get(buf + off, total - off);
    bool expect_ok = r.status == ref::CiResult::OK && (!as_int || r.value <= (ref::u128)INT_MAX);
    size_t length = off; size_t sval = 0x5a5a5a5a5a5a5a5aULL; int ival = 0; int rc;
    reset_ctx();
    g_armed = 1;
    if (sigsetjmp(g_jmp, 1)) {
        return "overread|decoder read beyond the " + std::to_string(total) + "-byte buffer (offset " + std::to_string(off) + ")";
    }
    if (as_int) rc = compint_to_int(g_zck, &ival, (const char *)base + off, &length, total);
    else rc = compint_to_size(g_zck, &sval, (const char *)base + off, &length, total);
    g_armed = 0;
    char tmp[256];
    if (expect_ok) {
        uint64_t got = as_int ? (uint64_t)(int64_t)ival : (uint64_t)sval;
        if (!rc) { snprintf(tmp, sizeof tmp, "reject-valid|valid %zu-byte encoding of %llu rejected", r.length, (unsigned long long)(uint64_t)r.value); return tmp; }
        if (got != (uint64_t)r.value) { snprintf(tmp, sizeof tmp, "wrong-value|decoded %llu, exact value %llu", (unsigned long long)got, (unsigned long long)(uint64_t)r.value); return tmp; }
        if (length != off + r.length) { snprintf(tmp, sizeof tmp, "wrong-length|cursor advanced by %zd, encoding is %zu bytes", (ssize_t)(length - off), r.length); return tmp; }
    } else if (rc) {
        const char *why = r.status == ref::CiResult::UNTERMINATED ? "unterminated within the buffer" : r.status == ref::CiResult::TOO_LONG ? "longer than ten bytes" :
                          r.status == ref::CiResult::OVERFLOW64 ? "value >= 2^64" : "value does not fit a non-negative int";
        const char *sig = r.status == ref::CiResult::UNTERMINATED ? "accept-unterminated" : r.status == ref::CiResult::TOO_LONG ? "accept-too-long" :
                          r.status == ref::CiResult::OVERFLOW64 ? "accept-overflow64" : "accept-int-overflow";
        snprintf(tmp, sizeof tmp, "%s|encoding is %s but decode succeeded with value %llu", sig, why, (unsigned long long)(as_int ? (uint64_t)(int64_t)ival : (uint64_t)sval));
        return tmp;
    }
    return "";
}

static std::string check_roundtrip(uint64_t v) {
    setup();
    ref::Bytes exp; ref::ci_put(exp, v);
    uint8_t *base = g_page + ACC - exp.size();       // exactly as many bytes as the reference needs
    memset(base, 0xEE, exp.size());
    size_t length = 0;
    g_armed = 1;
    if (sigsetjmp(g_jmp, 1)) return "encode-overrun|encoder wrote beyond " + std::to_string(exp.size()) + " bytes";
    compint_from_size((char *)base, (size_t)v, &length);
    g_armed = 0;
    char tmp[200];
    if (length != exp.size() || length > 10) { snprintf(tmp, sizeof tmp, "encode-length|%llu encoded in %zu bytes, expected %zu", (unsigned long long)v, length, exp.size()); return tmp; }
    if (memcmp(base, exp.data(), exp.size())) { snprintf(tmp, sizeof tmp, "encode-bytes|%llu encoded as %s", (unsigned long long)v, pbt::hexs(base, length).c_str()); return tmp; }
    std::string d = check_decode(base, length, 0, false); if (!d.empty()) return "rt-" + d;
    if (v <= INT_MAX) {
        size_t l2 = 0; uint8_t *b2 = g_page + ACC - exp.size(); memset(b2, 0xEE, exp.size());
        reset_ctx();
        if (!compint_from_int(g_zck, (char *)b2, (int)v, &l2) || l2 != exp.size() || memcmp(b2, exp.data(), l2)) return "encode-int|compint_from_int disagrees for " + std::to_string(v);
        d = check_decode(b2, l2, 0, true); if (!d.empty()) return "rt-" + d;
    }
    return "";
}

static void split_fail(Ctx &c, const std::string &r) { size_t p = r.find('|'); c.fail(r.substr(0, p), r.substr(p + 1)); }

// Generic property.  choices: [mode, ...]
//   mode 0: roundtrip: [0, class, value]
//   mode 1: decode:    [1, as_int, off, n, b0..bn-1]   (prefix of `off` filler bytes, then n bytes)
static void prop(Ctx &c) {
    uint64_t mode = c.draw(1);
    if (mode == 0) {
        uint64_t cls = c.draw(4), v;
        if (cls == 0) v = c.draw((1u << 21) - 1);
        else if (cls == 1) { uint64_t k = c.draw(63); uint64_t d = c.draw(2); v = (1ULL << k) + d - 1; }
        else if (cls == 2) v = UINT64_MAX - c.draw(300);
        else if (cls == 3) v = (uint64_t)INT_MAX - 150 + c.draw(300);
        else v = c.u64();
        c.desc << "roundtrip value=" << v;
        c.label("roundtrip"); if (v >= 128) { c.nontrivial(); c.label("roundtrip-multibyte"); }
        std::string r = check_roundtrip(v); if (!r.empty()) split_fail(c, r);
    } else {
        bool as_int = c.boolean();
        size_t off = c.draw(4), n = c.draw(13);
        uint8_t buf[32]; memset(buf, 0x01, sizeof buf);
        for (size_t i = 0; i < n; i++) {
            uint64_t k = c.draw(7);      // bias towards continuation bytes so that long encodings occur
            buf[off + i] = k == 0 ? (uint8_t)c.draw(255) : k == 1 ? 0x7f : k == 2 ? 0x00 : k == 3 ? 0xff : k == 4 ? 0x80 : k == 5 ? 0x01 : (uint8_t)c.draw(127);
        }
        c.desc << "decode " << (as_int ? "int" : "size") << " off=" << off << " bytes=" << pbt::hexs(buf + off, n);
        ref::CiResult r = ref::ci_get(buf + off, n);
        static const char *names[] = {"ok", "unterminated", "too-long", "overflow64"};
        c.label(std::string("decode-") + names[r.status]);
        if (r.status != ref::CiResult::OK || r.length > 1) c.nontrivial();
        if (as_int && r.status == ref::CiResult::OK && r.value > (ref::u128)INT_MAX) c.label("decode-int-overflow");
        std::string res = check_decode(buf, off + n, off, as_int); if (!res.empty()) split_fail(c, res);
    }
}

static std::vector<uint64_t> seq_for_decode(const uint8_t *buf, size_t off, size_t n, bool as_int) {
    std::vector<uint64_t> s{1, (uint64_t)as_int, off, n};
    for (size_t i = 0; i < n; i++) { s.push_back(0); s.push_back(buf[off + i]); }
    return s;
}

static void enumerate(pbt::Runner &R) {
    uint64_t evals = 0, nontriv = 0; std::set<std::string> seen; bool stop = false;
    auto fail = [&](const std::string &r, const std::vector<uint64_t> &seq, const std::string &desc) {
        size_t p = r.find('|'); std::string sig = r.substr(0, p);
        if (seen.count(sig)) return;          // one replay file per root-cause signature
        seen.insert(sig);
        if (R.report_enum_failure(seq, sig, r.substr(p + 1), desc)) stop = true;
    };
    // (a) encode/decode round trip: all values in [0, 2^21), all 2^k and 2^k +/- 1
    // (a) and (b) are split over the processes by value / by string
    for (uint64_t v = R.opt.proc_index; v < (1u << 21); v += R.opt.nproc) {
        std::string r = check_roundtrip(v); evals++; if (v >= 128) nontriv++;
        if (!r.empty()) fail(r, {0, 0, v}, "roundtrip value=" + std::to_string(v));
    }
    if (R.opt.proc_index == 0) for (int k = 0; k < 64; k++) for (int d = 0; d < 3; d++) {
        uint64_t v = (1ULL << k) + d - 1; std::string r = check_roundtrip(v); evals++; nontriv++;
        if (!r.empty()) fail(r, {0, 1, (uint64_t)k, (uint64_t)d}, "roundtrip value=" + std::to_string(v));
    }
    // (b) decode: all byte strings of length <= 3, at every offset 0..3 (prefix bytes are filler),
    //     for both destination types
    uint8_t buf[32];
    for (size_t n = 0; n <= 3 && !stop; n++) {
        uint64_t lim = 1ULL << (8 * n);
        for (uint64_t x = 0; x < lim; x++) {
            if (n && (int)(x % R.opt.nproc) != R.opt.proc_index) continue;
            if (!n && R.opt.proc_index) continue;
            for (size_t off = 0; off <= 3; off++) {
                memset(buf, 0x01, sizeof buf);
                for (size_t i = 0; i < n; i++) buf[off + i] = (x >> (8 * i)) & 0xff;
                for (int as_int = 0; as_int < 2; as_int++) {
                    std::string r = check_decode(buf, off + n, off, as_int); evals++; if (n >= 2) nontriv++;
                    if (!r.empty()) fail(r, seq_for_decode(buf, off, n, as_int), "decode off=" + std::to_string(off) + " bytes=" + pbt::hexs(buf + off, n));
                }
            }
        }
    }
    // (c) strings of length 8..11: filler in {00,7f,01} everywhere but the last three positions,
    //     which take every value (thorough) or every value in the last two and boundary values in
    //     the third-from-last (quick); offsets 0 and 2
    static const uint8_t fillers[] = {0x00, 0x7f, 0x01};
    std::vector<int> third;
    if (R.opt.tier) for (int i = 0; i < 256; i++) third.push_back(i);
    else third = {0x00, 0x01, 0x02, 0x3f, 0x40, 0x7e, 0x7f, 0x80, 0x81, 0xfe, 0xff};
    int nproc = R.opt.nproc, pi = R.opt.proc_index;
    for (size_t n = 8; n <= 11 && !stop; n++) for (uint8_t fl : fillers) {
        for (size_t ti = 0; ti < third.size(); ti++) {
            if ((int)(ti % nproc) != pi) continue;
            for (int b1 = 0; b1 < 256; b1++) for (int b2 = 0; b2 < 256; b2++) for (size_t off : {0, 2}) {
                memset(buf, 0x01, sizeof buf); memset(buf + off, fl, n);
                buf[off + n - 3] = third[ti]; buf[off + n - 2] = b1; buf[off + n - 1] = b2;
                for (int as_int = 0; as_int < 2; as_int++) {
                    std::string r = check_decode(buf, off + n, off, as_int); evals++; nontriv++;
                    if (!r.empty()) fail(r, seq_for_decode(buf, off, n, as_int), "decode off=" + std::to_string(off) + " bytes=" + pbt::hexs(buf + off, n));
                }
            }
        }
    }
    R.st.evaluations += evals; R.st.distinct_by_construction += nontriv; R.st.exhaustive = true;
    R.st.exhaustive_note = std::string("enumerated completely: round trip of all values in [0,2^21) and all 2^k, 2^k+/-1; decode (size and int) of every byte string of length <= 3 at offsets 0..3; strings of length 8..11 with filler 00/7f/01 and ") +
        (R.opt.tier ? "every value" : "every value in the last two and 11 boundary values in the third-from-last") + " of the last three positions, offsets 0 and 2; every buffer flush against a PROT_NONE page";
    R.st.samples.push_back("enum decode off=2 bytes=7f7f7f7f7f7f7f7f7f81 (10-byte encoding of a value >= 2^64)");
}

PBT_MAIN("C20", prop, enumerate)
