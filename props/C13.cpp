// C13  Reported metadata equals the file's; unrepresentable values are rejected.
//
// Generated: headers from the reference emitter (every hash type, flags incl. optional
// elements with arbitrary ids/payloads, 0..40 index entries with sizes up to 2^63, padded
// integer encodings, unused trailing bytes; full-file or detached magic) with 0..3 field-level
// mutations (boundary values 2^31/2^32/2^63/2^64 +-1 in any integer, 1..11-byte encodings,
// unterminated/over-long raw integers, count != entries, dropped/duplicated entries, size
// fields off by a little), always sealed with a correct header checksum.
// Oracle: if the library opens the header then
//   * the independent parser must not have rejected it for an integer that is longer than ten
//     bytes or >= 2^64, and no int-destined field (hash/compression type, index size, chunk hash
//     type, signature count) may exceed INT_MAX          (rejected rather than truncated/wrapped)
//   * every getter equals the independent parse: flags, hash types and digest sizes, lead /
//     header / data / total length, header and data digest, detached flag, chunk count, and per
//     chunk number, digest(s), stored size, size, start (= header length + running sum), valid 0
//   * count == number of chunks reachable by iteration >= 1
//   * a value that does not fit a signed 64-bit getter must come back as the error value (< 0),
//     never as a wrong non-negative number.
// A header the reference accepts and the library refuses is counted, never an alarm.
#include "pbt/pbt.hpp"
#include "ref/zckref.hpp"
#include "ref/fields.hpp"
#include "lib/zcklib.hpp"
#include "gen/gens.hpp"
#include "gen/mutate.hpp"
#include <climits>
#include <sys/wait.h>

using pbt::Ctx; using pbt::Bytes;

static std::string hex(const Bytes &b) { return pbt::hexs(b.data(), b.size(), 1000); }

static ref::Header gen_header(Ctx &c) {
    ref::Header h; h.detached = c.rarely(3);
    h.hash_type = c.draw(3); h.chunk_hash_type = c.draw(3);
    h.flags = 0; if (c.rarely(3)) h.flags |= 4; if (c.rarely(3)) h.flags |= 2;
    h.comp_type = c.boolean() ? 2 : 0;
    if (h.flags & 2) { size_t n = c.draw(4); for (size_t i = 0; i < n; i++) { ref::OptElem e; e.id = c.skewed(1u << 30); e.data = c.bytes(c.draw(20)); h.opt.push_back(e); } }
    h.data_digest = c.bytes(ref::digest_size(h.hash_type));
    size_t n = c.rarely(8) ? 0 : 1 + c.skewed(40); if (n > 60) n = 60;
    int cds = ref::digest_size(h.chunk_hash_type);
    for (size_t i = 0; i < n; i++) {
        ref::Entry e; e.digest = c.bytes(cds); if (h.flags & 4) e.udigest = c.bytes(cds);
        uint64_t k = c.draw(9);
        e.comp_len = k == 0 ? 0 : k < 7 ? c.skewed(1u << 20) : k == 7 ? (uint64_t)gen::boundary_value(c) : c.u64() >> c.draw(40);
        e.len = (c.boolean() || (h.comp_type == 0 && !c.rarely(10))) ? e.comp_len : (c.rarely(6) ? (uint64_t)gen::boundary_value(c) : c.skewed(1u << 22));
        if (e.comp_len == 0 && !c.rarely(10)) e.len = 0;
        h.entries.push_back(e);
    }
    h.count = n; h.sig_count = 0;
    return h;
}

static void prop(Ctx &c) {
    ref::Header h0 = gen_header(c);
    ref::Fields F = ref::fields_from(h0);
    if (c.rarely(4)) for (auto &x : F.f) if (x.kind == ref::Fld::INT && c.rarely(3)) x.pad = 1 + c.draw(9);     // non-canonical but legal encodings
    size_t nm = c.draw(3); std::string md;
    for (size_t i = 0; i < nm; i++) md += gen::mutate_field(c, F) + "; ";
    Bytes img = ref::emit(F);
    if (!h0.detached && !F.detached && c.boolean()) { Bytes body = c.bytes(c.draw(64)); img.insert(img.end(), body.begin(), body.end()); }
    c.desc << "header " << img.size() << "B hash=" << (unsigned)h0.hash_type << " chunkhash=" << (unsigned)h0.chunk_hash_type << " flags=" << (unsigned)h0.flags << " entries=" << h0.entries.size()
           << (F.detached ? " detached" : "") << " mutations{" << md << "}";
    ref::ParseResult pr = ref::parse(img);
    const ref::Header &h = pr.h;
    bool int_narrow = h.hash_type > INT_MAX || h.comp_type > INT_MAX || h.index_size > INT_MAX || h.chunk_hash_type > INT_MAX || h.sig_count > INT_MAX;

    int fd = lib::mkfd(img); zckCtx *z = zck_create();
    bool opened = zck_init_read(z, fd);
    std::string fail_sig, fail_msg;
    auto F_ = [&](const std::string &s, const std::string &m) { if (fail_sig.empty()) { fail_sig = s; fail_msg = m; } };
    c.label(opened ? "lib-opens" : "lib-refuses"); c.label(pr.ok ? "ref-accepts" : "ref-rejects");
    if (nm) c.label("mutated");
    if (!opened) { if (pr.ok && h.meta_ok) c.label("over-strict-refusal"); }
    else if (pr.int_overflow) F_("int-overflow-accepted", "the header opens although an integer in it is longer than ten bytes or denotes a value >= 2^64 (reference: " + pr.reason + ")");
    else if (int_narrow) F_("int-narrowed", "the header opens although an int-sized field holds a value > INT_MAX (reference parse: hash_type=" + std::to_string(h.hash_type) + " comp_type=" + std::to_string(h.comp_type) + " index_size=" + std::to_string(h.index_size) + " chunk_hash_type=" + std::to_string(h.chunk_hash_type) + " sig_count=" + std::to_string(h.sig_count) + ")");
    else if (!pr.ok) {
        // The reference stopped at `pr.reason`; every field it had read from the bytes up to that point is still what the file says,
        // and an opened context must report exactly those values (e.g. an unknown flag bit must not be reported away).
        c.label("ref-rejects-structure-lib-opens: " + pr.reason);
        auto want = [&](const char *what, ssize_t got, uint64_t w) { if ((w >> 63) ? got >= 0 : got != (ssize_t)w) F_(std::string("getter-") + what, std::string(what) + ": reported " + std::to_string(got) + ", file says " + std::to_string(w) + " (reference stopped later, at: " + pr.reason + ")"); };
        if (h.stage >= 1) { want("full-hash-type", zck_get_full_hash_type(z), h.hash_type); want("lead-length", zck_get_lead_length(z), h.lead_size); want("header-length", zck_get_header_length(z), h.total_size);
            char *g = zck_get_header_digest(z); std::string gs = g ? g : "(null)"; free(g); if (gs != hex(h.header_digest)) F_("getter-header-digest", "header-digest: reported " + gs + ", file says " + hex(h.header_digest)); }
        if (h.stage >= 2) { want("flags", zck_get_flags(z), h.flags); char *g = zck_get_data_digest(z); std::string gs = g ? g : "(null)"; free(g); if (gs != hex(h.data_digest)) F_("getter-data-digest", "data-digest: reported " + gs + ", file says " + hex(h.data_digest)); }
        if (h.stage >= 6) want("chunk-hash-type", zck_get_chunk_hash_type(z), h.chunk_hash_type);
        if (h.stage >= 8) { want("chunk-count", zck_get_chunk_count(z), h.entries.size()); }
        if (h.stage >= 2) c.nontrivial();
    }
    else {
        // ---- full comparison of everything the API reports
        auto S = [](ref::u128 v) { return v >> 63 ? std::string(">=2^63") : std::to_string((uint64_t)v); };
        auto cmp_size = [&](const char *what, ssize_t got, ref::u128 want) {
            if (want >> 63) { if (got >= 0) F_(std::string("wrapped-") + what, std::string(what) + " is " + S(want) + " (does not fit the getter) but " + std::to_string(got) + " was reported"); }
            else if (got != (ssize_t)(uint64_t)want) F_(std::string("getter-") + what, std::string(what) + ": reported " + std::to_string(got) + ", file says " + S(want));
        };
        auto cmp_hex = [&](const char *what, char *got, const Bytes &want) {
            std::string g = got ? got : "(null)"; free(got);
            if (g != hex(want)) F_(std::string("getter-") + what, std::string(what) + ": reported " + g + ", file says " + hex(want));
        };
        cmp_size("flags", zck_get_flags(z), h.flags);
        cmp_size("full-hash-type", zck_get_full_hash_type(z), h.hash_type);
        cmp_size("full-digest-size", zck_get_full_digest_size(z), ref::digest_size(h.hash_type));
        cmp_size("chunk-hash-type", zck_get_chunk_hash_type(z), h.chunk_hash_type);
        cmp_size("chunk-digest-size", zck_get_chunk_digest_size(z), ref::digest_size(h.chunk_hash_type));
        cmp_size("lead-length", zck_get_lead_length(z), h.lead_size);
        cmp_size("header-length", zck_get_header_length(z), h.total_size);
        cmp_hex("header-digest", zck_get_header_digest(z), h.header_digest);
        cmp_hex("data-digest", zck_get_data_digest(z), h.data_digest);
        if (zck_is_detached_header(z) != h.detached) F_("getter-detached", "detached-header flag differs from the magic");
        // iteration
        size_t iter = 0; ref::u128 run = 0; bool sum_overflow = false;
        for (zckChunk *ch = zck_get_first_chunk(z); ch; ch = zck_get_next_chunk(ch), iter++) {
            if (iter >= h.entries.size()) { F_("extra-chunk", "iteration yields more chunks than the " + std::to_string(h.entries.size()) + " index entries in the file"); break; }
            const ref::Entry &e = h.entries[iter]; std::string n = std::to_string(iter);
            cmp_size("chunk-number", zck_get_chunk_number(ch), iter);
            cmp_size("chunk-comp-size", zck_get_chunk_comp_size(ch), e.comp_len);
            cmp_size("chunk-size", zck_get_chunk_size(ch), e.len);
            ref::u128 st = (ref::u128)h.total_size + run;
            if (run >> 64 || st >> 64) sum_overflow = true;
            if (sum_overflow) { ssize_t g = zck_get_chunk_start(ch); if (g >= 0) F_("wrapped-chunk-start", "start of chunk " + n + " exceeds 64 bits but " + std::to_string(g) + " was reported"); }
            else cmp_size("chunk-start", zck_get_chunk_start(ch), st);
            cmp_hex("chunk-digest", zck_get_chunk_digest(ch), e.digest);
            char *ud = zck_get_chunk_digest_uncompressed(ch);
            if (h.flags & 4) cmp_hex("chunk-udigest", ud, e.udigest); else if (ud) { free(ud); F_("getter-chunk-udigest", "uncompressed digest reported although the flag is not set"); }
            if (zck_get_chunk_valid(ch) != 0) F_("getter-valid", "chunk " + n + " reported valid=" + std::to_string(zck_get_chunk_valid(ch)) + " right after open");
            if (zck_get_chunk(z, iter) != ch) F_("get-chunk", "zck_get_chunk(" + n + ") is not the " + n + "th chunk of the iteration");
            run += e.comp_len;
        }
        if (iter < h.entries.size() && fail_sig.empty()) F_("missing-chunk", "iteration yields " + std::to_string(iter) + " chunks, the file has " + std::to_string(h.entries.size()) + " index entries");
        ssize_t cnt = zck_get_chunk_count(z);
        if (cnt != (ssize_t)iter) F_("count-vs-iteration", "reported chunk count " + std::to_string(cnt) + " but " + std::to_string(iter) + " chunks are reachable by iteration");
        else if (iter < 1) F_("no-dictionary-entry", "a header without any index entry opens (count " + std::to_string(cnt) + ")");
        else if ((ref::u128)cnt != (ref::u128)h.count) F_("getter-count", "reported chunk count " + std::to_string(cnt) + ", file says " + S(h.count));
        if (iter >= 1 && fail_sig.empty()) {
            if (sum_overflow || (run >> 64)) { ssize_t g = zck_get_data_length(z); if (g >= 0) F_("wrapped-data-length", "data length exceeds 64 bits but " + std::to_string(g) + " was reported"); }
            else { cmp_size("data-length", zck_get_data_length(z), run); ref::u128 tot = (ref::u128)h.total_size + run; if (!(tot >> 64)) cmp_size("total-length", zck_get_length(z), tot); }
        }
        // ... nor when validation options are given after the fact (they describe what the caller expected, not the file)
        if (c.gver >= 4 && fail_sig.empty() && h.meta_ok && c.rarely(5)) {
            (void)!zck_set_ioption(z, ZCK_VAL_HEADER_LENGTH, (ssize_t)(h.total_size + 1 + c.draw(500))); if (zck_is_error(z)) (void)!zck_clear_error(z);
            (void)!zck_set_ioption(z, ZCK_VAL_HEADER_HASH_TYPE, (ssize_t)((h.hash_type + 1) % 3)); if (zck_is_error(z)) (void)!zck_clear_error(z); c.label("options-set-after-open");
            cmp_size("header-length(after late option)", zck_get_header_length(z), h.total_size); cmp_size("lead-length(after late option)", zck_get_lead_length(z), h.lead_size); cmp_size("full-hash-type(after late option)", zck_get_full_hash_type(z), h.hash_type);
            cmp_hex("header-digest(after late option)", zck_get_header_digest(z), h.header_digest);
            zckChunk *c1 = zck_get_first_chunk(z); if (c1) cmp_size("chunk-start(after late option)", zck_get_chunk_start(c1), h.total_size);
        }
        // what the context reports about ITS file must not change when the context is used: paired with another file that holds the same
        // chunks at other offsets (zck_find_matching_chunks, the first step of a delta computation), starts, sizes and checksums are
        // still this file's
        if (c.gver >= 4 && fail_sig.empty() && h.meta_ok && h.entries.size() >= 3 && !sum_overflow && c.rarely(3)) {
            ref::Header h2 = h; std::rotate(h2.entries.begin() + 1, h2.entries.begin() + 2, h2.entries.end()); h2.detached = false; Bytes simg = ref::emit_header(h2);
            int sfd = lib::mkfd(simg); zckCtx *src = zck_create();
            if (zck_init_read(src, sfd)) {
                (void)!zck_find_matching_chunks(src, z); if (zck_is_error(z)) (void)!zck_clear_error(z); c.label("after-matching-against-another-file");
                size_t it2 = 0; ref::u128 run2 = 0;
                for (zckChunk *ch = zck_get_first_chunk(z); ch && it2 < h.entries.size(); ch = zck_get_next_chunk(ch), it2++) { const ref::Entry &e = h.entries[it2];
                    cmp_size("chunk-start(after matching)", zck_get_chunk_start(ch), (ref::u128)h.total_size + run2); cmp_size("chunk-comp-size(after matching)", zck_get_chunk_comp_size(ch), e.comp_len);
                    cmp_size("chunk-size(after matching)", zck_get_chunk_size(ch), e.len); cmp_size("chunk-number(after matching)", zck_get_chunk_number(ch), it2); cmp_hex("chunk-digest(after matching)", zck_get_chunk_digest(ch), e.digest); run2 += e.comp_len; }
                cmp_size("header-length(after matching)", zck_get_header_length(z), h.total_size); cmp_size("data-length(after matching)", zck_get_data_length(z), run);
            }
            zck_free(&src); close(sfd);
        }
        if (h.entries.size() >= 2 || nm) c.nontrivial();
        c.label(h.meta_ok ? "compared-consistent" : "compared-inconsistent-meta");
    }
    zck_free(&z); close(fd);
    if (!fail_sig.empty()) c.fail(fail_sig, fail_msg);
    // ---- the advanced open with the caller's expectations pinned reports the FILE's values too: the same image with one byte of the
    // stored header checksum changed, opened with the true checksum pinned (before the lead is read, or after it).  If that opens at
    // all, the checksum it reports must be the one stored in the file - what was pinned is the caller's claim, not the file's content.
    if (c.gver >= 4 && opened && pr.ok && h.meta_ok && h.header_digest.size() && c.rarely(4)) {
        Bytes m = img; size_t dloc = h.lead_size - h.header_digest.size(), pos = dloc + c.pick(h.header_digest.size()); m[pos] ^= (uint8_t)(1u << c.draw(7));
        Bytes stored(m.begin() + dloc, m.begin() + h.lead_size); std::string pin = hex(h.header_digest); bool late = c.boolean();
        int fd2 = lib::mkfd(m); zckCtx *z2 = zck_create(); bool ok = zck_init_adv_read(z2, fd2);
        if (ok && late) ok = zck_read_lead(z2);
        if (ok) { (void)!zck_set_ioption(z2, ZCK_VAL_HEADER_HASH_TYPE, (ssize_t)h.hash_type); (void)!zck_set_soption(z2, ZCK_VAL_HEADER_DIGEST, pin.data(), pin.size()); if (zck_is_error(z2)) (void)!zck_clear_error(z2); }
        if (ok && !late) ok = zck_read_lead(z2);
        if (ok) ok = zck_read_header(z2);
        c.label(late ? "pinned-open-of-altered-checksum(pin after lead)" : "pinned-open-of-altered-checksum");
        if (ok) { char *g = zck_get_header_digest(z2); std::string gs = g ? g : "(null)"; free(g); zck_free(&z2); close(fd2);
                  if (gs != hex(stored)) c.fail("getter-header-digest", "header-digest after an open with the expected checksum pinned" + std::string(late ? " (after the lead was read)" : "") + ": reported " + gs + ", the file stores " + hex(stored)); }
        else { zck_free(&z2); close(fd2); }
    }
    // ---- what `zck_read_header -c` prints must be the same metadata (ASan build of the tool)
    const char *bdir = getenv("VERIF_BUILD");
    if (bdir && opened && pr.ok && h.meta_ok && c.draw(c.tier ? 15 : 40) == 0) {
        char path[128]; snprintf(path, sizeof path, "/dev/shm/c13-%d.zck", (int)getpid()); { FILE *f = fopen(path, "wb"); if (f) { fwrite(img.data(), 1, img.size(), f); fclose(f); } }
        int ofd = memfd_create("out", 0); std::string tool = std::string(bdir) + "/asan/tools/zck_read_header";
        pid_t pid = fork();
        if (pid == 0) { struct itimerval it; memset(&it, 0, sizeof it); setitimer(ITIMER_PROF, &it, nullptr); struct rlimit rl = {20, 22}; setrlimit(RLIMIT_CPU, &rl); int dn = open("/dev/null", O_RDWR); dup2(dn, 0); dup2(ofd, 1); dup2(dn, 2); execl(tool.c_str(), "zck_read_header", "-c", path, (char *)nullptr); _exit(126); }
        int st = 0; waitpid(pid, &st, 0); unlink(path); Bytes ob = lib::fd_bytes(ofd); close(ofd); std::string out((const char *)ob.data(), ob.size());
        c.label("tool-output-compared");
        if (WIFEXITED(st) && WEXITSTATUS(st) == 126) c.fail("tool-missing", "cannot run " + tool);
        if (WIFEXITED(st) && WEXITSTATUS(st) == 0) {
            static const char *HN[] = {"SHA-1", "SHA-256", "SHA-512", "SHA-512/128"};
            auto field = [&](const std::string &key) { size_t p2 = out.find(key + ": "); if (p2 == std::string::npos) return std::string("(absent)"); size_t e = out.find('\n', p2); return out.substr(p2 + key.size() + 2, e - p2 - key.size() - 2); };
            auto want = [&](const std::string &key, const std::string &w) { std::string g = field(key); if (g != w) c.fail("tool-output:" + key, "zck_read_header prints '" + key + ": " + g + "', the file says " + w); };
            want("Overall checksum type", HN[h.hash_type]); want("Header size", std::to_string(h.total_size)); want("Header checksum", hex(h.header_digest)); want("Data checksum", hex(h.data_digest));
            want("Chunk count", std::to_string(h.count)); want("Chunk checksum type", HN[h.chunk_hash_type]);
            if (!(h.data_length >> 63)) want("Data size", std::to_string((uint64_t)h.data_length));
            // chunk table lines: number digest [udigest] start comp size
            size_t tp = out.find("       Chunk Checksum"); std::istringstream ls(tp == std::string::npos ? "" : out.substr(out.find('\n', tp) + 1)); std::string line; size_t i2 = 0; ref::u128 run2 = 0;
            while (std::getline(ls, line) && i2 < h.entries.size()) {
                std::istringstream ts(line); unsigned long long num, start, comp, size; std::string dg, udg; ts >> num >> dg; if (h.flags & 4) ts >> udg; ts >> start >> comp >> size;
                const ref::Entry &e = h.entries[i2];
                if (!ts || num != i2 || dg != hex(e.digest) || ((h.flags & 4) && udg != hex(e.udigest)) || start != (unsigned long long)(h.total_size + (uint64_t)run2) || comp != e.comp_len || size != e.len)
                    c.fail("tool-output:chunk-line", "zck_read_header -c prints '" + line + "' for chunk " + std::to_string(i2) + ", the file says digest " + hex(e.digest) + " start " + std::to_string(h.total_size + (uint64_t)run2) + " comp " + std::to_string(e.comp_len) + " size " + std::to_string(e.len));
                run2 += e.comp_len; i2++;
            }
            if (i2 != h.entries.size()) c.fail("tool-output:chunk-count", "zck_read_header -c lists " + std::to_string(i2) + " chunks, the file has " + std::to_string(h.entries.size()));
        } else c.label("tool-refuses");
    }
}

PBT_MAIN("C13", prop, nullptr)
