// C01  Round trip: anything written reads back byte-identical and fully valid (library level).
//
// Generated: content D, writer configuration (legal setter order), write history
// (write(n)/end_chunk), read history (cyclic buffer sizes), descriptors closed before
// zck_init_write.  Oracle: every accepted configuration + successful close yields a file that
//   (1) the independent reference decoder accepts (header checksum, every chunk digest,
//       whole-data digest, declared sizes) and decodes to exactly D  -> no loss/dup/reorder,
//   (2) the library reopens, zck_validate_checksums()==1, reads back D under the read history,
//       zck_close()==true;
// and the write path terminates (CPU-time bound enforced on an isolated child).
#include "pbt/pbt.hpp"
#include "ref/zckref.hpp"
#include "lib/zcklib.hpp"
#include "gen/gens.hpp"

using pbt::Ctx; using pbt::Bytes;

struct ChildOut { int status = 0; bool cfg_ok = false, ok = false; std::string err; Bytes file; long chunks = -1; bool hang = false, crashed = false; };

// Run the writer in a forked child with some of descriptors 0..2 closed (before or after the
// output descriptor is created).  Result comes back through a memfd created beforehand.
static ChildOut write_in_child(const lib::WCfg &cfg, const Bytes &D, const std::vector<lib::WOp> &ops, unsigned close_mask, bool close_before_out, unsigned cpu_s, int warmup = 0) {
    ChildOut co; int res = memfd_create("res", 0);
    fflush(stdout); fflush(stderr);
    pid_t pid = fork();
    if (pid == 0) {
        struct rlimit rl = {cpu_s, cpu_s + 5}; setrlimit(RLIMIT_CPU, &rl);
        // move the result fd out of the way of 0..2
        int r2 = fcntl(res, F_DUPFD, 50); close(res);
        if (close_before_out) for (int fd = 0; fd < 3; fd++) if (close_mask & (1u << fd)) close(fd);
        int out = memfd_create("out", 0);
        if (!close_before_out) for (int fd = 0; fd < 3; fd++) if (close_mask & (1u << fd)) close(fd);
        // other contexts that lived and died in this process before the writer under test starts: a writer with a dictionary made
        // of the content (1, 3), a reader of such a file (2, 3).  Nothing of them may carry over into the writer under test.
        if (warmup) { lib::WCfg wc; wc.comp = ZCK_COMP_ZSTD; wc.dict.assign(D.begin(), D.begin() + std::min<size_t>(D.size(), 3000)); if (wc.dict.empty()) wc.dict.assign(200, 'w'); wc.manual = (warmup & 1) != 0;
            Bytes WD(D.begin(), D.begin() + std::min<size_t>(D.size(), 20000)); lib::WResult wr = lib::write_file(wc, WD, {});
            if (wr.ok && (warmup & 2)) { lib::RResult rr = lib::read_file(wr.file, {4096}); (void)rr; } }
        // inline variant of lib::write_file with a caller-supplied output descriptor
        zckCtx *z = zck_create(); bool cfg_ok = false, good = false; std::string err;
        if (!zck_init_write(z, out)) err = std::string("init_write: ") + zck_get_error(z);
        else if (lib::apply_cfg(z, cfg, err)) {
            cfg_ok = true; good = true; size_t off = 0;
            for (auto &op : ops) {
                if (op.end) { if (zck_end_chunk(z) < 0) { err = std::string("end_chunk: ") + zck_get_error(z); good = false; break; } }
                else { size_t n = std::min(op.n, D.size() - off); ssize_t w = zck_write(z, (const char *)D.data() + off, n);
                       if (w != (ssize_t)n) { err = "write returned " + std::to_string(w) + ": " + zck_get_error(z); good = false; break; } off += n; }
            }
            if (good && off < D.size()) { ssize_t w = zck_write(z, (const char *)D.data() + off, D.size() - off); if (w != (ssize_t)(D.size() - off)) { err = "final write failed"; good = false; } }
            if (good && !zck_close(z)) { err = std::string("close: ") + zck_get_error(z); good = false; }
        }
        long chunks = good ? (long)zck_get_chunk_count(z) : -1;
        Bytes file = good ? lib::fd_bytes(out) : Bytes();
        uint64_t hdr[4] = {cfg_ok, good, (uint64_t)chunks, err.size()};
        ssize_t w = write(r2, hdr, sizeof hdr); w = write(r2, err.data(), err.size());
        size_t o = 0; while (o < file.size()) { w = write(r2, file.data() + o, file.size() - o); if (w <= 0) break; o += w; }
        _exit(0);
    }
    int status = 0; waitpid(pid, &status, 0); co.status = status;
    if (WIFSIGNALED(status) && (WTERMSIG(status) == SIGXCPU || WTERMSIG(status) == SIGKILL)) co.hang = true;
    else if (!(WIFEXITED(status) && WEXITSTATUS(status) == 0)) co.crashed = true;
    else {
        Bytes all = lib::fd_bytes(res);
        if (all.size() >= 32) {
            uint64_t hdr[4]; memcpy(hdr, all.data(), 32); co.cfg_ok = hdr[0]; co.ok = hdr[1]; co.chunks = (long)hdr[2];
            co.err.assign((const char *)all.data() + 32, hdr[3]); co.file.assign(all.begin() + 32 + hdr[3], all.end());
        } else co.crashed = true;
    }
    close(res); return co;
}

static void prop(Ctx &c) {
    gen::Content ct = gen::content(c, c.tier ? (3u << 20) : (1u << 20));
    Bytes &D = ct.data;
    lib::WCfg cfg = gen::wcfg(c, D);
    // The writer keeps every chunk in a linked index, so millions of 1-byte chunks are legitimately slow (and quadratic under
    // ASan).  The amount of work is bounded (at most ~150k chunks per case) and the CPU limit that defines "does not terminate"
    // grows with the expected number of chunks, so that a slow-but-finishing case is never called a hang.
    { size_t per = cfg.chunk_max > 0 ? (size_t)cfg.chunk_max : 131072; if (!cfg.manual) per = std::min<size_t>(per, 8192); if (per < 1) per = 1;
      size_t cap = per * 150000; if (D.size() > cap) { D.resize(cap); c.label("content-capped-for-chunk-count"); } }
    size_t est_chunks = D.size() / std::max<size_t>(1, cfg.chunk_max > 0 ? std::min<size_t>((size_t)cfg.chunk_max, cfg.manual ? (size_t)cfg.chunk_max : 8192) : (cfg.manual ? 131072 : 8192));
    unsigned cpu_s = 40 + (unsigned)(est_chunks / 1500);
    std::vector<lib::WOp> ops = gen::whistory(c, D.size(), c.chance(3, 4));
    // a manual chunk that stores more than a megabyte (incompressible data), after a small chunk and / or a dictionary and followed by
    // a small one: sizes at which a writer is tempted to treat a piece differently (direct writes, bigger buffers)
    bool mega = c.gver >= 4 && c.rarely(c.tier ? 10 : 24);
    if (mega) {
        size_t pre = c.draw(3000), big = (1u << 20) - 2 + c.draw(c.boolean() ? 4 : (3u << 19)), post = c.draw(3000); uint64_t seed = c.draw(0xffff);
        D.assign(pre + big + post, 0); gen::fill_random(D.data(), D.size(), seed); if (c.boolean()) for (size_t i = 0; i < pre; i++) D[i] = "abc\n"[i & 3];
        cfg.manual = true; cfg.chunk_max = -1; cfg.chunk_min = -1; if (cfg.level > 3) cfg.level = 3; if (cfg.dict.size() > 5000) cfg.dict.resize(5000);
        ops.clear(); if (pre) { ops.push_back({false, pre}); ops.push_back({true, 0}); }
        uint64_t k = c.draw(2); if (k == 0) ops.push_back({false, big}); else if (k == 1) { size_t a = 1 + c.draw(big - 2); ops.push_back({false, a}); ops.push_back({false, big - a}); } else { size_t st = 200000 + c.draw(400000); for (size_t o = 0; o < big; o += st) ops.push_back({false, std::min(st, big - o)}); }
        ops.push_back({true, 0}); if (post) ops.push_back({false, post});
        ct.kind = 2; est_chunks = 3; cpu_s = 60; c.label("megabyte-chunk");
    }
    std::vector<size_t> rsz = gen::rhistory(c);
    if (D.size() > 200000) for (auto &s : rsz) if (s < 64) s += 64;
    if (mega) for (auto &s : rsz) if (s < 8192) s += 8192;
    unsigned close_mask = c.rarely(6) ? (unsigned)(1 + c.draw(6)) : 0; bool close_before = c.boolean();
    c.desc << "D=" << ct.str() << " cfg{" << cfg.str() << "} ops=" << gen::ops_str(ops) << " reads=" << gen::sizes_str(rsz);
    if (close_mask) c.desc << " closed_fds_mask=" << close_mask << (close_before ? "(before out)" : "(after out)");

    int warmup = c.gver >= 4 && c.rarely(5) ? 1 + (int)c.draw(2) : 0; if (warmup) { c.desc << " after-another-context(" << warmup << ")"; c.label("after-another-context"); }
    ChildOut w = write_in_child(cfg, D, ops, close_mask, close_before, cpu_s, warmup);
    if (w.hang) c.fail("write-hang", "write path did not terminate within " + std::to_string(cpu_s) + " s of CPU time (about " + std::to_string(est_chunks) + " chunks expected)");
    if (w.crashed) c.fail("write-crash", "writer child died, wait status " + std::to_string(w.status));
    if (!w.cfg_ok) { c.label("cfg-refused"); return; }                 // a refused configuration is outside the property's domain
    c.label(cfg.comp == ZCK_COMP_ZSTD ? "zstd" : "none"); c.label(cfg.manual ? "manual" : "auto");
    if (!cfg.dict.empty()) c.label("dict"); if (cfg.uncomp) c.label("uncomp-flag"); if (close_mask) c.label("fds-closed");
    if (cfg.chunk_max >= 0) c.label("max-set"); if (cfg.chunk_min >= 0) c.label("min-set");
    if (!w.ok) { c.label("write-failed"); c.desc << " write-error=" << w.err; return; }   // "closing successfully" is the premise

    // (1) independent reference
    ref::ParseResult pr = ref::parse(w.file);
    if (!pr.ok) c.fail("ref-header", "reference parser rejects the written header: " + pr.reason);
    if (!pr.h.meta_ok) c.fail("ref-meta", "written header inconsistent: " + pr.h.meta_reason);
    ref::Decoded dec = ref::decode(w.file, pr.h);
    if (!dec.ok) c.fail("ref-decode", "reference decoder rejects the written file: " + dec.reason);
    if (dec.content != D) {
        size_t i = 0; while (i < dec.content.size() && i < D.size() && dec.content[i] == D[i]) i++;
        c.fail(dec.content.size() < D.size() ? "lost-bytes" : dec.content.size() > D.size() ? "extra-bytes" : "changed-bytes",
               "file decodes (reference) to " + std::to_string(dec.content.size()) + " bytes, wrote " + std::to_string(D.size()) + ", first difference at " + std::to_string(i));
    }
    if (dec.dict != cfg.dict && !(cfg.comp == ZCK_COMP_NONE && false)) c.fail("dict-mismatch", "dictionary chunk decodes to " + std::to_string(dec.dict.size()) + " bytes, configured " + std::to_string(cfg.dict.size()));
    if (w.file.size() != pr.h.total_size + (size_t)pr.h.data_length) c.fail("file-size", "file has " + std::to_string(w.file.size()) + " bytes, header+index describe " + std::to_string(pr.h.total_size + (size_t)pr.h.data_length));
    if ((long)pr.h.count != w.chunks) c.fail("count", "writer reports " + std::to_string(w.chunks) + " chunks, header says " + std::to_string(pr.h.count));
    size_t nchunks = pr.h.entries.size() - 1;
    c.label(nchunks >= 2 ? "chunks>=2" : nchunks == 1 ? "chunks=1" : "chunks=0");
    if (nchunks >= 2 || cfg.chunk_max >= 0 || !cfg.dict.empty() || cfg.uncomp || close_mask) c.nontrivial();

    // (2) the library itself
    {
        int fd = lib::mkfd(w.file); zckCtx *z = zck_create();
        if (!zck_init_read(z, fd)) { std::string e = zck_get_error(z); zck_free(&z); close(fd); c.fail("reopen", "library cannot open its own file: " + e); }
        int v = zck_validate_checksums(z);
        zck_free(&z); close(fd);
        if (v != 1) c.fail("validate", "zck_validate_checksums returned " + std::to_string(v) + " on a freshly written file");
    }
    lib::RResult rr = lib::read_file(w.file, rsz);
    if (!rr.open_ok) c.fail("reopen", "library cannot open its own file: " + rr.err);
    if (!rr.read_ok) c.fail("read-error", "read failed: " + rr.err);
    if (rr.data != D) {
        size_t i = 0; while (i < rr.data.size() && i < D.size() && rr.data[i] == D[i]) i++;
        c.fail("readback", "read back " + std::to_string(rr.data.size()) + " bytes, wrote " + std::to_string(D.size()) + ", first difference at " + std::to_string(i));
    }
    if (!rr.close_ok) c.fail("read-close", "zck_close after reading to the end failed: " + rr.err);
}

PBT_MAIN("C01", prop, nullptr)
