// C08  Local chunk reuse never accepts bytes that do not match the target index.
//
// Generated: B and a target = B's header + a validity pattern (some chunks already valid);
// 1..3 sources derived from B's chunk list (shared, replaced, inserted, duplicated chunks) and
// then damaged: intact / body bytes corrupted inside chosen chunks / truncated / index entries
// swapped or with altered sizes or with digests copied from B, header re-sealed (so the index
// promises data the body does not hold) / other dictionary, chunk hash type or compression.
// Copies are applied in the generated order.  A second mode exercises zck_find_matching_chunks
// (same compression: stored digests; different compression with the uncompressed-source flag on
// both sides: uncompressed digests).
// Oracle after every zck_copy_chunks(src, tgt):
//   * every target chunk with valid==1 hashes (reference digest over the bytes now in the
//     target file) to its index digest;
//   * a chunk that became valid has an entry with equal digest, stored size and size in THAT
//     source's index (reference parse);
//   * chunks marked failed are zero-filled;  * the source file is byte-identical to its snapshot;
//   * target bytes outside the extents of chunks whose state changed are unchanged (header and
//     previously valid chunks in particular).
#include "pbt/pbt.hpp"
#include "ref/zckref.hpp"
#include "ref/fields.hpp"
#include "lib/zcklib.hpp"
#include "gen/gens.hpp"

using pbt::Ctx; using pbt::Bytes;

static std::string fstr(const std::vector<int> &v) { std::string s; for (int x : v) s += x == 1 ? "+" : x == -1 ? "-" : "0"; return s; }
static std::vector<int> flags_of(zckCtx *z) { std::vector<int> v; for (zckChunk *ch = z->index.first; ch; ch = ch->next) v.push_back(ch->valid); return v; }

struct Src { Bytes file; ref::Header h; std::string desc; bool damaged = false; Bytes intact; int pre_op = 0; };
// pre_op: history on the SOURCE context before the copy: 1 = zck_find_matching_chunks(intact B, source) has marked its chunks from the
// index alone; 2 = the source was opened and validated while intact and damaged on disk afterwards

static Src make_source(Ctx &c, const gen::ZParams &qb, const gen::ZFile &B) {
    gen::ZParams q = qb; q.by_ref = false; Src s; std::ostringstream d;
    size_t ne = c.draw(3);
    for (size_t e = 0; e < ne; e++) {
        uint64_t k = c.draw(3);
        if (k == 0 && !q.chunks.empty()) q.chunks[c.pick(q.chunks.size())] = gen::chunk_content(c, 600);
        else if (k == 1) q.chunks.insert(q.chunks.begin() + c.draw(q.chunks.size()), gen::chunk_content(c, 600));
        else if (k == 2 && !q.chunks.empty()) q.chunks.push_back(q.chunks[c.pick(q.chunks.size())]);
        else if (q.chunks.size() >= 2) std::swap(q.chunks[c.pick(q.chunks.size())], q.chunks[c.pick(q.chunks.size())]);
    }
    d << "edits=" << ne;
    if (c.rarely(8)) { q.dict = Bytes(40, 'q'); d << " other-dict"; }
    if (c.rarely(8)) { q.chunk_hash = q.chunk_hash == 1 ? 2 : 1; d << " other-chunk-hash"; }
    if (c.rarely(8)) { q.comp = q.comp == ZCK_COMP_ZSTD ? ZCK_COMP_NONE : ZCK_COMP_ZSTD; d << " other-compression"; }
    gen::ZFile A = gen::zfile_build(c, q);
    s.file = A.file; s.h = A.h; size_t n = A.nchunks();
    switch (c.draw(6)) {
    case 0: case 1: d << " intact"; break;
    case 2: { size_t k = 1 + c.draw(2); for (size_t t = 0; t < k; t++) { size_t i = c.pick(n); if (!A.clen(i)) continue; s.file[A.off(i) + c.pick(A.clen(i))] ^= (uint8_t)(1 + c.draw(254)); d << " body-corrupt-c" << i; s.damaged = true; } break; }
    case 3: { size_t body = s.file.size() - A.h.total_size; if (body) { s.file.resize(A.h.total_size + c.draw(body - 1)); d << " truncated-to-" << s.file.size(); s.damaged = true; } break; }
    case 4: {   // mis-indexed: swap entries / alter sizes / plant B's digests, re-seal
        ref::Header h2 = A.h; uint64_t k = c.draw(2);
        if (k == 0 && n >= 3) { size_t a = 1 + c.pick(n - 1), b = 1 + c.pick(n - 1); std::swap(h2.entries[a].digest, h2.entries[b].digest); d << " index-digests-swapped(" << a << "," << b << ")"; }
        else if (k == 1 && n >= 2 && B.nchunks() >= 2) { size_t a = 1 + c.pick(n - 1), b = 1 + c.pick(B.nchunks() - 1); if (h2.chunk_hash_type == B.h.chunk_hash_type) { h2.entries[a].digest = B.h.entries[b].digest; h2.entries[a].len = B.h.entries[b].len; if (c.boolean()) h2.entries[a].comp_len = B.h.entries[b].comp_len; d << " planted-digest-of-B-c" << b << "-at-" << a; } }
        else if (n >= 2) { size_t a = 1 + c.pick(n - 1); h2.entries[a].comp_len += 1 + c.draw(3); if (h2.comp_type == 0) h2.entries[a].len = h2.entries[a].comp_len; d << " stored-size-of-c" << a << "-increased"; }
        Bytes hd = ref::emit_header(h2); Bytes f = hd; f.insert(f.end(), A.file.begin() + A.h.total_size, A.file.end()); s.file = f; ref::ParseResult pr = ref::parse(f); if (pr.ok) s.h = pr.h; s.damaged = true; break; }
    default: { size_t i = c.pick(n); if (A.clen(i)) { std::fill(s.file.begin() + A.off(i), s.file.begin() + A.off(i) + A.clen(i), 0); d << " zeroed-c" << i; s.damaged = true; } break; }
    }
    s.intact = A.file;
    if (c.gver >= 2 && s.damaged && c.rarely(3)) { s.pre_op = 1 + (int)c.draw(1); if (s.pre_op == 2 && (s.file.size() < A.h.total_size || memcmp(s.file.data(), A.file.data(), A.h.total_size) != 0)) s.pre_op = 1; d << (s.pre_op == 1 ? " [source chunks pre-marked by find_matching_chunks]" : " [source validated while intact, damaged afterwards]"); }
    s.desc = d.str(); return s;
}

static void mode_copy(Ctx &c) {
    gen::ZFileOpts o; o.max_chunks = 10; o.max_chunk = 600; o.allow_empty = false; o.big_rate = 8;
    gen::ZParams qb = gen::zparams(c, o); gen::ZFile B = gen::zfile_build(c, qb); size_t n = B.nchunks();
    Bytes T = B.file; std::string pat;
    for (size_t i = 0; i < n; i++) { size_t off = B.off(i), cl = B.clen(i); if (!cl) { pat += "+"; continue; } uint64_t k = c.draw(3); if (k == 0) { pat += "+"; continue; } pat += "0"; if (k == 1) std::fill(T.begin() + off, T.begin() + off + cl, 0); else for (size_t j = 0; j < cl; j++) T[off + j] ^= (uint8_t)(0x3c + j); }
    if (c.rarely(5)) { T.resize(B.h.total_size); pat = "header-only"; }
    size_t ns = 1 + c.draw(2); std::vector<Src> srcs; for (size_t i = 0; i < ns; i++) srcs.push_back(make_source(c, qb, B));
    c.desc << "B{" << B.desc << "} target=" << pat; for (size_t i = 0; i < ns; i++) c.desc << " src" << i << "{" << srcs[i].desc << "}";
    c.checkpoint();
    int tfd = lib::mkfd(T, "tgt"); zckCtx *tgt = zck_create();
    if (!zck_init_read(tgt, tfd)) { zck_free(&tgt); close(tfd); c.fail("target-open", "target does not open"); }
    (void)!zck_find_valid_chunks(tgt); zck_reset_failed_chunks(tgt);
    bool accepted_from_damaged = false, rejected_from_damaged = false; std::string fsig, fmsg;
    for (size_t si = 0; si < ns && fsig.empty(); si++) {
        Src &S = srcs[si]; int sfd = lib::mkfd(S.pre_op == 2 ? S.intact : S.file, "src"); zckCtx *src = zck_create();
        if (!zck_init_read(src, sfd)) { zck_free(&src); close(sfd); c.label("source-refused"); continue; }
        if (S.pre_op == 1) { int xfd = lib::mkfd(B.file, "x"); zckCtx *x = zck_create(); if (zck_init_read(x, xfd)) (void)zck_find_matching_chunks(x, src); zck_free(&x); close(xfd); (void)!zck_clear_error(src); c.label("source-premarked"); }
        if (S.pre_op == 2) { (void)!zck_validate_checksums(src); if (pwrite(sfd, S.file.data(), S.file.size(), 0) != (ssize_t)S.file.size() || ftruncate(sfd, S.file.size())) abort(); (void)!zck_clear_error(src); c.label("source-damaged-after-validation"); }
        std::vector<int> before = flags_of(tgt); Bytes tb = lib::fd_bytes(tfd);
        bool ok = zck_copy_chunks(src, tgt);
        std::vector<int> after = flags_of(tgt); Bytes ta = lib::fd_bytes(tfd); Bytes sa = lib::fd_bytes(sfd);
        std::string tag = "copy from src" + std::to_string(si) + " (" + fstr(before) + " -> " + fstr(after) + ")";
        (void)ok;
        if (sa != S.file) { fsig = "source-modified"; fmsg = tag + ": the source file was modified"; }
        for (size_t i = 0; i < n && fsig.empty(); i++) {
            size_t off = B.off(i), cl = B.clen(i);
            if (after[i] == 1 && cl) {
                if (ta.size() < off + cl || ref::digest((int)B.h.chunk_hash_type, ta.data() + off, cl) != B.h.entries[i].digest) { fsig = "valid-with-wrong-bytes"; fmsg = tag + ": chunk " + std::to_string(i) + " is marked valid but the bytes at its offset do not hash to its index checksum"; break; }
            }
            if (after[i] == 1 && before[i] != 1) {
                bool in_src = false; for (auto &e : S.h.entries) if (e.digest == B.h.entries[i].digest && e.comp_len == B.h.entries[i].comp_len && e.len == B.h.entries[i].len) in_src = true;
                if (!in_src) { fsig = "valid-without-matching-source-entry"; fmsg = tag + ": chunk " + std::to_string(i) + " became valid although this source's index has no entry with equal checksum, stored size and size"; break; }
                if (S.damaged) accepted_from_damaged = true;
            }
            if (after[i] == -1) {
                for (size_t p = off; p < off + cl && p < ta.size(); p++) if (ta[p] != 0) { fsig = "failed-not-zeroed"; fmsg = tag + ": chunk " + std::to_string(i) + " is marked failed but byte " + std::to_string(p) + " of its extent is not zero"; break; }
                if (S.damaged) rejected_from_damaged = true;
            }
            if (before[i] == 1 && after[i] != 1) { fsig = "valid-chunk-lost"; fmsg = tag + ": chunk " + std::to_string(i) + " was valid before the copy and is " + std::to_string(after[i]) + " now"; break; }
        }
        // bytes outside the extents of chunks whose state changed
        if (fsig.empty()) {
            std::vector<bool> may(std::max(ta.size(), tb.size()), false);
            // "chunks being filled": target chunks that were not valid and for which this source's index has an entry with equal
            // checksum and sizes - the copy is attempted there, and an attempt that fails half-way (source cut short inside a chunk
            // larger than one 32 KiB copy block) may leave the chunk still missing with part of its extent written
            for (size_t i = 0; i < n; i++) {
                bool attempted = false; if (before[i] != 1) for (auto &e : S.h.entries) if (e.digest == B.h.entries[i].digest && e.comp_len == B.h.entries[i].comp_len && e.len == B.h.entries[i].len) attempted = true;
                if (after[i] != before[i] || (before[i] != 1 && after[i] == -1) || attempted) for (size_t p = B.off(i); p < B.off(i) + B.clen(i) && p < may.size(); p++) may[p] = true;
            }
            size_t lim = std::min(ta.size(), tb.size());
            for (size_t p = 0; p < lim; p++) if (ta[p] != tb[p] && !may[p]) { fsig = "not-confined"; fmsg = tag + ": target byte " + std::to_string(p) + " changed although it lies outside every chunk that was being filled (header: " + std::to_string(B.h.total_size) + " bytes)"; break; }
            for (size_t p = lim; p < ta.size() && fsig.empty(); p++) if (!may[p] && ta[p] != 0) { fsig = "not-confined"; fmsg = tag + ": byte " + std::to_string(p) + " beyond the old end of the target was written outside any changed chunk"; }
        }
        zck_reset_failed_chunks(tgt);
        zck_free(&src); close(sfd);
    }
    zck_free(&tgt); close(tfd);
    c.label("copy"); if (accepted_from_damaged) c.label("accepted-from-damaged"); if (rejected_from_damaged) c.label("rejected-from-damaged");
    if (accepted_from_damaged && rejected_from_damaged) c.nontrivial(); else if (rejected_from_damaged && c.case_key() % 4 == 0) c.nontrivial();
    if (!fsig.empty()) c.fail(fsig, fmsg);
}

static void mode_match(Ctx &c) {
    gen::ZFileOpts o; o.max_chunks = 8; o.max_chunk = 300; o.allow_empty = false; o.allow_ref_writer = false;
    gen::ZParams qb = gen::zparams(c, o); bool both_uncomp = c.boolean(); if (both_uncomp) { qb.uncomp = true; if (qb.chunk_hash != 1 && qb.chunk_hash != 2) qb.chunk_hash = 1; }
    gen::ZParams qa = qb; bool other_comp = c.boolean(); if (other_comp) qa.comp = qa.comp == ZCK_COMP_ZSTD ? ZCK_COMP_NONE : ZCK_COMP_ZSTD;
    if (c.boolean() && !qa.chunks.empty()) qa.chunks[c.pick(qa.chunks.size())] = gen::chunk_content(c, 300);
    if (c.boolean()) qa.chunks.insert(qa.chunks.begin() + c.draw(qa.chunks.size()), gen::chunk_content(c, 300));
    if (c.rarely(4)) { qa.uncomp = !qa.uncomp; if (qa.uncomp && qa.chunk_hash != 1 && qa.chunk_hash != 2) qa.chunk_hash = 1; }
    gen::ZFile B = gen::zfile_build(c, qb), A = gen::zfile_build(c, qa);
    bool planted = false;
    if (c.chance(1, 3) && A.nchunks() >= 2 && B.nchunks() >= 2 && A.h.chunk_hash_type == B.h.chunk_hash_type) {
        // source index re-sealed with one of the target's checksums but another length: must NOT pair
        ref::Header h2 = A.h; size_t a = 1 + c.pick(A.nchunks() - 1), b = 1 + c.pick(B.nchunks() - 1);
        h2.entries[a].digest = B.h.entries[b].digest; if ((h2.flags & 4) && (B.h.flags & 4)) h2.entries[a].udigest = B.h.entries[b].udigest;
        h2.entries[a].len = B.h.entries[b].len + 1 + c.draw(5); if (h2.comp_type == 0) h2.entries[a].comp_len = h2.entries[a].len;
        Bytes f = ref::emit_header(h2); f.insert(f.end(), A.file.begin() + A.h.total_size, A.file.end()); ref::ParseResult pr = ref::parse(f);
        if (pr.ok) { A.file = f; A.h = pr.h; planted = true; }
    }
    c.desc << "find_matching: tgt{" << B.desc << "} src{" << A.desc << "}" << (planted ? " + planted checksum with different length" : ""); c.checkpoint();
    int tfd = lib::mkfd(B.file), sfd = lib::mkfd(A.file); zckCtx *tgt = zck_create(), *src = zck_create();
    if (!zck_init_read(tgt, tfd) || !zck_init_read(src, sfd)) { zck_free(&tgt); zck_free(&src); close(tfd); close(sfd); c.fail("open", "valid files do not open"); }
    bool same_comp = A.h.comp_type == B.h.comp_type, both4 = (A.h.flags & 4) && (B.h.flags & 4);
    (void)zck_find_matching_chunks(src, tgt);
    std::string fsig, fmsg; size_t i = 0, matched = 0;
    for (zckChunk *ch = tgt->index.first; ch; ch = ch->next, i++) {
        const ref::Entry &te = B.h.entries[i]; bool expect = false;
        for (auto &e : A.h.entries) { if (same_comp) { if (e.digest == te.digest && e.len == te.len) expect = true; } else if (both4) { if (e.udigest == te.udigest && e.len == te.len) expect = true; } }
        if (A.h.chunk_hash_type != B.h.chunk_hash_type) expect = false;
        if (ch->valid == 1 && !expect) { fsig = "matched-without-equal-digest"; fmsg = "target chunk " + std::to_string(i) + " was paired although the source has no chunk with equal " + (same_comp ? "stored" : "uncompressed") + " checksum and length"; break; }
        if (ch->valid == 1) { matched++; zckChunk *s = ch->src; if (!s || s->zck != src || s->length != ch->length) { fsig = "matched-wrong-source-chunk"; fmsg = "target chunk " + std::to_string(i) + " is paired with a chunk that is not a source chunk of equal length"; break; } }
    }
    zck_free(&tgt); zck_free(&src); close(tfd); close(sfd);
    c.label(same_comp ? "match-same-compression" : both4 ? "match-uncompressed-digest" : "match-impossible"); if (matched && matched < B.nchunks()) c.nontrivial();
    if (!fsig.empty()) c.fail(fsig, fmsg);
}

static void prop(Ctx &c) { if (c.chance(4, 5)) mode_copy(c); else mode_match(c); }

PBT_MAIN("C08", prop, nullptr)
