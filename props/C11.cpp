// C11  Interrupted updates resume to the exact file; partial chunks never trusted.
//
// Generated: an update scenario as in C04 (A, B, initial target, limit, server cap, multipart
// style) with small response fragments, so that write calls end inside chunks and inside part
// headers.  A dry run counts the write system calls W on the target; then EVERY k in 1..W is used
// as a kill point (sampled when W is large): the update runs in a forked child linked with
// -Wl,--wrap=write; at the k-th write on the target the wrapper writes a generated fraction of
// the buffer (none / part / all) and _exits.  The parent snapshots the target, lets the
// reference decide which chunks are completely and correctly on disk, and runs the whole
// procedure again with fresh contexts (optionally interrupting the resume as well).
// Oracle: the resume converges to B (bytes, data checksum valid, nothing missing); after the
// resume's scan no chunk that is not byte-correct on disk is marked valid; the ranges requested by
// the resume are disjoint from the extents of chunks that were complete and correct at the kill
// point (and from chunks available in A).
#include "pbt/pbt.hpp"
#include "ref/zckref.hpp"
#include "lib/zcklib.hpp"
#include "gen/gens.hpp"
#include "gen/dl.hpp"

using pbt::Ctx; using pbt::Bytes;

// ---- write interposition ---------------------------------------------------------------------
static int g_target_fd = -1; static long g_kill_at = 0; static int g_partial = 0;     // g_partial: 0 nothing, 1 half, 2 all-but-one, 3 all
static volatile long *g_count = nullptr;                                               // in shared memory: survives the child
extern "C" ssize_t __real_write(int fd, const void *buf, size_t n);
extern "C" ssize_t __wrap_write(int fd, const void *buf, size_t n) {
    if (fd == g_target_fd && g_count) {
        long k = ++*g_count;
        if (g_kill_at && k == g_kill_at) {
            size_t part = g_partial == 0 ? 0 : g_partial == 1 ? n / 2 : g_partial == 2 ? (n ? n - 1 : 0) : n;
            if (part) { ssize_t w = __real_write(fd, buf, part); (void)w; }
            _exit(42);
        }
    }
    return __real_write(fd, buf, n);
}

struct Scn { gen::ZFile B, A, A2; bool haveA = false, haveA2 = false; Bytes T0; dl::Server srv; dl::UpdateCfg cfg; uint64_t cutseed = 0, cutstyle = 0; std::string desc; };

static dl::UpdateResult run(Scn &s, int tfd) { s.srv.log.clear(); return dl::run_update(s.srv, tfd, s.cfg); }

// run the update in a child that dies at write k; returns false if the child finished normally
static bool run_killed(Scn &s, int tfd, long k, int partial) {
    *g_count = 0; fflush(stdout); fflush(stderr);
    pid_t pid = fork();
    if (pid == 0) { g_kill_at = k; g_partial = partial; g_target_fd = tfd; dl::UpdateResult r = run(s, tfd); _exit(r.ok ? 0 : 1); }
    int st = 0; waitpid(pid, &st, 0);
    return WIFEXITED(st) && WEXITSTATUS(st) == 42;
}

static void prop(Ctx &c) {
    Scn s;
    gen::ZFileOpts o; o.max_chunks = c.tier ? 12 : 8; o.max_chunk = c.chance(2, 3) ? 40 : 300; o.allow_empty = false; o.big_rate = 6;
    gen::ZParams qb = gen::zparams(c, o); s.B = gen::zfile_build(c, qb); size_t n = s.B.nchunks();
    s.haveA = c.boolean(); std::string adesc = "absent";
    if (s.haveA) { gen::ZParams qa = qb; qa.by_ref = false; size_t ne = 1 + c.draw(2); for (size_t e = 0; e < ne; e++) { if (!qa.chunks.empty() && c.boolean()) qa.chunks[c.pick(qa.chunks.size())] = gen::chunk_content(c, o.max_chunk); else qa.chunks.insert(qa.chunks.begin() + c.draw(qa.chunks.size()), gen::chunk_content(c, o.max_chunk)); } s.A = gen::zfile_build(c, qa); adesc = "edited"; }
    // the restart may be given another local source than the interrupted attempt had (zckdl -s old1, then zckdl -s old2): an older
    // version that shares most of B's chunks
    if (c.gver >= 4 && c.rarely(3)) { gen::ZParams qa = qb; qa.by_ref = false; if (!qa.chunks.empty()) { qa.chunks[c.pick(qa.chunks.size())] = gen::chunk_content(c, o.max_chunk); if (qa.chunks.size() > 2 && c.boolean()) qa.chunks.erase(qa.chunks.begin() + c.pick(qa.chunks.size())); } s.A2 = gen::zfile_build(c, qa); s.haveA2 = true; adesc += " / restart with another source"; c.label("restart-with-another-source"); }
    std::string tdesc;
    switch (c.draw(3)) {
    case 0: tdesc = "empty"; break;
    case 1: if (s.haveA) { s.T0 = s.A.file; tdesc = "A's bytes"; } else tdesc = "empty"; break;
    case 2: { s.T0 = s.B.file; tdesc = "B damaged:"; for (size_t i = 0; i < n; i++) if (s.B.clen(i) && c.chance(2, 3)) { std::fill(s.T0.begin() + s.B.off(i), s.T0.begin() + s.B.off(i) + s.B.clen(i), 0); tdesc += " c" + std::to_string(i); } break; }
    default: s.T0 = c.bytes(c.draw(400)); tdesc = "garbage"; break;
    }
    s.srv.file = s.B.file; s.srv.style = dl::gen_style(c, true); static const int srvmax[] = {2, 7, 1000000, 1000000}; s.srv.max_ranges = srvmax[c.pick(4)];
    if (s.haveA) s.cfg.A = &s.A.file;
    if (c.boolean()) s.cfg.first_limit_index = (int)c.draw(4); else { static const int fl[] = {-1, 1, 2, 3}; s.cfg.fixed_limit = fl[c.pick(4)]; if (s.cfg.fixed_limit == -1 || s.cfg.fixed_limit > s.srv.max_ranges) s.srv.max_ranges = 1000000; }
    s.cutseed = c.draw(0xffffff); s.cutstyle = c.draw(3);
    uint64_t cutseed = s.cutseed, cutstyle = s.cutstyle;
    s.cfg.cutter = [cutseed, cutstyle](size_t len) {
        std::vector<size_t> cuts; if (len < 2) return cuts; pbt::Rng r(cutseed ^ len);
        if (cutstyle == 0) { for (size_t p = 1; p < len && p < 3000; p++) cuts.push_back(p); return cuts; }              // 1-byte fragments
        size_t st = cutstyle == 1 ? 1 + r.below(7) : 5 + r.below(40); for (size_t p = st; p < len && cuts.size() < 3000; p += st) cuts.push_back(p); return cuts;
    };
    c.desc << "B{" << s.B.desc << "} A=" << adesc << " target0=" << tdesc << " limit=" << (s.cfg.fixed_limit != -2 ? "fixed " + std::to_string(s.cfg.fixed_limit) : "ladder from " + std::to_string(dl::range_attempt[s.cfg.first_limit_index]))
           << " server-max=" << s.srv.max_ranges << " cutstyle=" << s.cutstyle;
    c.checkpoint();

    g_count = (volatile long *)mmap(nullptr, 4096, PROT_READ | PROT_WRITE, MAP_SHARED | MAP_ANONYMOUS, -1, 0);
    // ---- dry run: count writes, make sure the uninterrupted update works (that is C04's business if not)
    long W;
    { int tfd = lib::mkfd(s.T0, "t"); *g_count = 0; g_target_fd = tfd; g_kill_at = 0; dl::UpdateResult r = run(s, tfd); W = *g_count; g_target_fd = -1; close(tfd);
      if (!r.ok || r.target != s.B.file) { c.label("uninterrupted-update-fails(C04)"); munmap((void *)g_count, 4096); return; } }
    if (W == 0) { c.label("no-writes"); munmap((void *)g_count, 4096); return; }
    // ---- kill points
    std::vector<long> ks; size_t maxk = c.tier ? 400 : 120;
    if ((size_t)W <= maxk) for (long k = 1; k <= W; k++) ks.push_back(k); else { for (size_t i = 0; i < maxk; i++) ks.push_back(1 + (long)c.draw(W - 1)); std::sort(ks.begin(), ks.end()); ks.erase(std::unique(ks.begin(), ks.end()), ks.end()); }
    bool exhaustive_k = (size_t)W <= maxk; uint64_t partial_seed = c.draw(0xffff); bool second_kill = c.rarely(3);
    c.desc << " writes=" << W << " kill-points=" << ks.size() << (exhaustive_k ? "(all)" : "(sampled)") << (second_kill ? " +second-interruption" : "");
    c.label(exhaustive_k ? "all-kill-points" : "sampled-kill-points");
    size_t hp = std::min<size_t>(std::max<size_t>((size_t)zck_get_min_download_size(), s.B.h.total_size), s.B.file.size());
    uint64_t evals = 0, nontriv = 0; std::string fsig, fmsg;
    for (long k : ks) {
        int partial = (int)(pbt::mix64(partial_seed * 1000003 + k) % 4);
        int tfd = lib::mkfd(s.T0, "t");
        if (!run_killed(s, tfd, k, partial)) { close(tfd); continue; }
        evals++;
        Bytes S = lib::fd_bytes(tfd);
        if (second_kill) { long k2 = 1 + (long)(pbt::mix64(partial_seed + k) % (uint64_t)W); (void)run_killed(s, tfd, k2, (int)(pbt::mix64(k2) % 4)); S = lib::fd_bytes(tfd); }
        // what is completely and correctly on disk now?  (the resume's header phase rewrites the first hp bytes with B's)
        Bytes S1 = S; if (S1.size() < hp) S1.resize(hp); memcpy(S1.data(), s.B.file.data(), hp);
        std::vector<bool> on_disk(n, false); size_t complete = 0, partial_chunks = 0;
        for (size_t i = 0; i < n; i++) { size_t off = s.B.off(i), cl = s.B.clen(i); if (!cl) { on_disk[i] = true; continue; }
            on_disk[i] = off + cl <= S1.size() && ref::digest((int)s.B.h.chunk_hash_type, S1.data() + off, cl) == s.B.h.entries[i].digest; if (on_disk[i]) complete++;
            else if (off < S1.size()) { bool differs_from_t0 = false; for (size_t p = off; p < off + cl && p < S1.size(); p++) if (p >= s.T0.size() || S1[p] != s.T0[p]) differs_from_t0 = true; if (differs_from_t0) partial_chunks++; } }
        if (partial_chunks && complete) nontriv++;
        // ---- resume with fresh contexts
        const Bytes *A1 = s.cfg.A; if (s.haveA2) s.cfg.A = &s.A2.file;
        g_kill_at = 0; g_target_fd = -1; dl::UpdateResult r = run(s, tfd); close(tfd); s.cfg.A = A1;
        const ref::Header *RA = s.haveA2 ? &s.A2.h : s.haveA ? &s.A.h : nullptr;      // the source the restart had
        std::string tag = "kill at write " + std::to_string(k) + "/" + std::to_string(W) + " (" + (partial == 0 ? "nothing" : partial == 1 ? "half" : partial == 2 ? "all but one byte" : "all") + " of it written)" + (second_kill ? " + second interruption" : "");
        if (!r.ok) { fsig = "resume-fails"; fmsg = tag + ": resume failed at stage " + std::to_string(r.stage) + ": " + r.err; break; }
        if (r.target != s.B.file) { fsig = "resume-wrong-file"; fmsg = tag + ": resumed target differs from B"; break; }
        if (r.final_missing != 0) { fsig = "resume-missing"; fmsg = tag + ": chunks still missing after the resume"; break; }
        for (size_t i = 0; i < r.flags_after_scan.size() && i < n; i++) {
            bool in_a = false; if (RA) for (auto &e : RA->entries) if (e.digest == s.B.h.entries[i].digest && e.comp_len == s.B.h.entries[i].comp_len && e.len == s.B.h.entries[i].len) in_a = true;
            if (r.flags_after_scan[i] == 1 && !on_disk[i] && !in_a) { fsig = "partial-chunk-trusted"; fmsg = tag + ": after the resume's scan chunk " + std::to_string(i) + " is valid although its bytes on disk do not match its checksum"; break; }
        }
        if (!fsig.empty()) break;
        for (auto &rq : r.requested) { std::vector<dl::Range> v; dl::parse_ranges(rq, v);
            for (auto &x : v) for (size_t i = 0; i < n; i++) { size_t off = s.B.off(i), cl = s.B.clen(i); if (!cl) continue;
                bool in_a = false; if (RA) for (auto &e : RA->entries) if (e.digest == s.B.h.entries[i].digest && e.comp_len == s.B.h.entries[i].comp_len && e.len == s.B.h.entries[i].len) in_a = true;
                if (!on_disk[i] && in_a && x.s <= off + cl - 1 && x.e >= off) { fsig = "refetched-chunk-available-in-A"; fmsg = tag + ": the resume requested " + std::to_string(x.s) + "-" + std::to_string(x.e) + " which overlaps chunk " + std::to_string(i) + " that the old file A provides"; }
                if (!on_disk[i]) continue; if (x.s <= off + cl - 1 && x.e >= off) { fsig = "refetched-complete-chunk"; fmsg = tag + ": the resume requested " + std::to_string(x.s) + "-" + std::to_string(x.e) + " which overlaps chunk " + std::to_string(i) + " that was completely and correctly on disk"; } } }
        if (!fsig.empty()) break;
    }
    munmap((void *)g_count, 4096); g_count = nullptr;
    c.extra_evals = evals; c.extra_distinct = nontriv; if (nontriv) c.nontrivial();
    if (!fsig.empty()) c.fail(fsig, fmsg);
}

PBT_MAIN("C11", prop, nullptr)
