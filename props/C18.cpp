// C18  Checksum back ends are interchangeable across builds.
//
// The whole library is built twice as shared objects (with OpenSSL, and with the bundled
// SHA-1/SHA-2 code that the repository's own test configuration never compiles), linked with
// -Wl,-Bsymbolic and loaded with dlopen(RTLD_LOCAL) into one process.  At start-up dladdr proves
// that bundled.so's SHA1_Init / sha256_init resolve inside bundled.so and that ossl.so contains
// no sha256_init (otherwise the test would silently compare OpenSSL with itself).
// Enumerated: every digest type x every message length 0..300 (all block and padding edges for
// 64- and 128-byte blocks) x 3 contents x 4 segmentations, plus NIST vectors "", "abc", 10^6 x 'a'.
// Generated: random messages up to 1 MiB with random update segmentations (1-byte, empty and
// huge updates); file level: the same (content, configuration, write history) written through
// each build must give byte-identical files, and each build must validate and read the other's.
// Oracle: three-way differential - hash_init/update/finalize of both builds agree with each
// other and with OpenSSL's one-shot EVP_Digest (SHA-512/128 = first 16 bytes of SHA-512).
#include "pbt/pbt.hpp"
#include "ref/zckref.hpp"
#include <dlfcn.h>
#include <sys/stat.h>
#include <sys/mman.h>
#include <fcntl.h>
#include <link.h>
extern "C" {
#include <zck.h>
#include "zck_private.h"
}
#undef set_error
#undef set_fatal_error
#undef zck_log

using pbt::Ctx; using pbt::Bytes;

struct Lib {
    void *h = nullptr; std::string name;
    zckCtx *(*create)(); void (*free_)(zckCtx **); void (*set_log_level)(zck_log_type);
    bool (*hash_setup)(zckCtx *, zckHashType *, int); bool (*hash_init)(zckCtx *, zckHash *, zckHashType *); bool (*hash_update)(zckCtx *, zckHash *, const char *, const size_t); char *(*hash_finalize)(zckCtx *, zckHash *);
    bool (*init_write)(zckCtx *, int); bool (*init_read)(zckCtx *, int); bool (*set_ioption)(zckCtx *, zck_ioption, ssize_t); bool (*set_soption)(zckCtx *, zck_soption, const char *, size_t);
    ssize_t (*write)(zckCtx *, const char *, const size_t); ssize_t (*end_chunk)(zckCtx *); bool (*close)(zckCtx *); ssize_t (*read)(zckCtx *, char *, size_t); int (*validate)(zckCtx *); const char *(*get_error)(zckCtx *);
    template <class F> void sym(F &f, const char *n) { f = (F)dlsym(h, n); if (!f) { fprintf(stderr, "C18: %s has no symbol %s\n", name.c_str(), n); exit(2); } }
    void load(const std::string &path) {
        name = path; h = dlopen(path.c_str(), RTLD_NOW | RTLD_LOCAL); if (!h) { fprintf(stderr, "C18: dlopen %s: %s\n", path.c_str(), dlerror()); exit(2); }
        sym(create, "zck_create"); sym(free_, "zck_free"); sym(set_log_level, "zck_set_log_level"); sym(hash_setup, "hash_setup"); sym(hash_init, "hash_init"); sym(hash_update, "hash_update"); sym(hash_finalize, "hash_finalize");
        sym(init_write, "zck_init_write"); sym(init_read, "zck_init_read"); sym(set_ioption, "zck_set_ioption"); sym(set_soption, "zck_set_soption"); sym(write, "zck_write"); sym(end_chunk, "zck_end_chunk"); sym(close, "zck_close");
        sym(read, "zck_read"); sym(validate, "zck_validate_checksums"); sym(get_error, "zck_get_error");
        set_log_level(ZCK_LOG_NONE);
    }
};
static Lib OSSL, BUND; static bool loaded = false;

static void load_libs() {
    if (loaded) return; loaded = true;
    const char *b = getenv("VERIF_BUILD"); std::string dir = std::string(b ? b : "build") + "/so/";
    OSSL.load(dir + "ossl.so"); BUND.load(dir + "bundled.so");
    // the bundled build must really run its own code
    void *s1 = dlsym(BUND.h, "SHA1_Init"), *s2 = dlsym(BUND.h, "sha256_init"), *s5 = dlsym(BUND.h, "sha512_init"); Dl_info i1, i2, i5;
    if (!s1 || !s2 || !s5 || !dladdr(s1, &i1) || !dladdr(s2, &i2) || !dladdr(s5, &i5) || !strstr(i1.dli_fname, "bundled.so") || !strstr(i2.dli_fname, "bundled.so") || !strstr(i5.dli_fname, "bundled.so")) { fprintf(stderr, "C18: bundled.so does not resolve its own SHA code (SHA1_Init in %s)\n", s1 && dladdr(s1, &i1) ? i1.dli_fname : "?"); exit(2); }
    // lib_hash_init of bundled.so must call into bundled.so: check the address bound inside via -Bsymbolic by comparing with the default scope
    if (dlsym(OSSL.h, "sha256_init")) { Dl_info io; void *p = dlsym(OSSL.h, "sha256_init"); if (dladdr(p, &io) && strstr(io.dli_fname, "ossl.so")) { fprintf(stderr, "C18: ossl.so unexpectedly contains the bundled SHA code\n"); exit(2); } }
}

static Bytes lib_digest(Lib &L, int type, const Bytes &msg, const std::vector<size_t> &cuts, std::string *err) {
    zckCtx *z = L.create(); zckHashType ht; memset(&ht, 0, sizeof ht); zckHash h; memset(&h, 0, sizeof h); Bytes out;
    if (!L.hash_setup(z, &ht, type) || !L.hash_init(z, &h, &ht)) { *err = "hash_setup/hash_init failed"; L.free_(&z); return out; }
    size_t at = 0;
    for (size_t cpos : cuts) { size_t n = cpos - at; bool ok = n ? L.hash_update(z, &h, (const char *)msg.data() + at, n) : L.hash_update(z, &h, nullptr, 0); if (!ok) { *err = std::string("hash_update failed: ") + L.get_error(z); L.free_(&z); return out; } at = cpos; }
    if (at < msg.size() && !L.hash_update(z, &h, (const char *)msg.data() + at, msg.size() - at)) { *err = "hash_update failed"; L.free_(&z); return out; }
    char *d = L.hash_finalize(z, &h); if (!d) { *err = "hash_finalize returned NULL"; L.free_(&z); return out; }
    out.assign((uint8_t *)d, (uint8_t *)d + ht.digest_size); free(d); L.free_(&z); return out;
}
static const char *TN[] = {"SHA-1", "SHA-256", "SHA-512", "SHA-512/128"};

// returns "" or failure text
static std::string check_digest(int type, const Bytes &msg, const std::vector<size_t> &cuts, std::string *sig) {
    std::string e1, e2; Bytes a = lib_digest(OSSL, type, msg, cuts, &e1), b = lib_digest(BUND, type, msg, cuts, &e2), r = ref::digest(type, msg);
    std::string what = std::string(TN[type]) + " of a " + std::to_string(msg.size()) + "-byte message in " + std::to_string(cuts.size() + 1) + " updates";
    if (!e1.empty()) { *sig = "openssl-build-error"; return what + ": OpenSSL build: " + e1; }
    if (!e2.empty()) { *sig = "bundled-build-error"; return what + ": bundled build: " + e2; }
    if (b != r) { *sig = std::string("bundled-wrong:") + TN[type]; return what + ": bundled build gives " + pbt::hexs(b, 80) + ", the standard algorithm gives " + pbt::hexs(r, 80); }
    if (a != r) { *sig = std::string("openssl-build-wrong:") + TN[type]; return what + ": OpenSSL build gives " + pbt::hexs(a, 80) + ", one-shot EVP_Digest gives " + pbt::hexs(r, 80); }
    return "";
}

// ---- giant single updates: ONE hash_update call of more than 2^30 (thorough: 2^31, 2^32) bytes - what a single zck_write() of that
// size reaches with manual chunking and no compression.  The message depends on the position everywhere (no period), so hashing
// any part of it twice or skipping any part changes the digest.  Reference = one-shot EVP_Digest over the same memory.
static std::string check_giant(int type, uint64_t total, std::string *sig) {
    uint8_t *m = (uint8_t *)mmap(nullptr, total, PROT_READ | PROT_WRITE, MAP_PRIVATE | MAP_ANONYMOUS | MAP_NORESERVE, -1, 0); if (m == MAP_FAILED) return "";      // not enough memory here: nothing decided
    { uint64_t x = 0x9e3779b97f4a7c15ull ^ total; uint64_t *w = (uint64_t *)m; for (uint64_t i = 0; i < total / 8; i++) { x += 0x9e3779b97f4a7c15ull; uint64_t z = x; z = (z ^ (z >> 30)) * 0xbf58476d1ce4e5b9ull; w[i] = z ^ (z >> 27); } for (uint64_t i = total / 8 * 8; i < total; i++) m[i] = (uint8_t)(i * 131); }
    const EVP_MD *md = type == 0 ? EVP_sha1() : type == 1 ? EVP_sha256() : EVP_sha512(); unsigned char out[64]; unsigned ol = 0; EVP_Digest(m, total, out, &ol, md, nullptr); Bytes r(out, out + (type == 3 ? 16 : ol));
    std::string what = std::string(TN[type]) + " of a " + std::to_string(total) + "-byte message given in ONE update call", res;
    for (int b = 0; b < 2 && res.empty(); b++) { Lib &L = b ? BUND : OSSL; zckCtx *z = L.create(); zckHashType t; memset(&t, 0, sizeof t); zckHash h; memset(&h, 0, sizeof h);
        if (!L.hash_setup(z, &t, type) || !L.hash_init(z, &h, &t)) { *sig = "giant-setup"; res = what + ": hash_setup/hash_init failed"; }
        else if (!L.hash_update(z, &h, (const char *)m, total)) { /* a build that refuses such an update does not give a wrong digest */ char *d = L.hash_finalize(z, &h); free(d); }
        else { char *d = L.hash_finalize(z, &h); Bytes g; if (d) g.assign((uint8_t *)d, (uint8_t *)d + t.digest_size); free(d);
               if (g != r) { *sig = std::string(b ? "bundled-wrong-giant-update:" : "openssl-build-wrong-giant-update:") + TN[type]; res = what + ": the " + (b ? "bundled" : "OpenSSL") + " build gives " + pbt::hexs(g, 80) + ", the standard algorithm gives " + pbt::hexs(r, 80); } }
        L.free_(&z); }
    munmap(m, total); return res;
}

// ---- long messages: total lengths whose bit count needs more than 32 bits (2^29 bytes) or whose byte count does (2^32), streamed
// through both builds in generated update sizes without ever holding the message in memory; reference = OpenSSL EVP streaming.
#include <openssl/evp.h>
static std::string check_long(int type, uint64_t total, const std::vector<size_t> &upd, uint64_t seed, std::string *sig) {
    Bytes block(4u << 20); { pbt::Rng r(seed); for (size_t i = 0; i < block.size(); i += 8) { uint64_t v = r.next(); memcpy(&block[i], &v, 8); } }
    const EVP_MD *md = type == 0 ? EVP_sha1() : type == 1 ? EVP_sha256() : EVP_sha512(); EVP_MD_CTX *e = EVP_MD_CTX_new(); EVP_DigestInit_ex(e, md, nullptr);
    zckCtx *za = OSSL.create(), *zb = BUND.create(); zckHashType ta, tb; memset(&ta, 0, sizeof ta); memset(&tb, 0, sizeof tb); zckHash ha, hb; memset(&ha, 0, sizeof ha); memset(&hb, 0, sizeof hb);
    std::string what = std::string(TN[type]) + " of a " + std::to_string(total) + "-byte message streamed in updates of " + std::to_string(upd[0]) + (upd.size() > 1 ? "," + std::to_string(upd[1]) + ",..." : "") + " bytes";
    if (!OSSL.hash_setup(za, &ta, type) || !OSSL.hash_init(za, &ha, &ta) || !BUND.hash_setup(zb, &tb, type) || !BUND.hash_init(zb, &hb, &tb)) { *sig = "long-setup"; return what + ": hash_setup/hash_init failed"; }
    uint64_t done = 0; size_t k = 0, at = 0;
    while (done < total) { size_t n = (size_t)std::min<uint64_t>(upd[k++ % upd.size()], total - done); if (at + n > block.size()) at = 0; n = std::min(n, block.size());
        EVP_DigestUpdate(e, block.data() + at, n); if (!OSSL.hash_update(za, &ha, (const char *)block.data() + at, n) || !BUND.hash_update(zb, &hb, (const char *)block.data() + at, n)) { *sig = "long-update"; return what + ": hash_update failed"; } at += n; done += n; }
    unsigned char out[64]; unsigned ol = 0; EVP_DigestFinal_ex(e, out, &ol); EVP_MD_CTX_free(e); Bytes r(out, out + (type == 3 ? 16 : ol));
    char *da = OSSL.hash_finalize(za, &ha), *db = BUND.hash_finalize(zb, &hb); Bytes a, b; if (da) a.assign((uint8_t *)da, (uint8_t *)da + ta.digest_size); if (db) b.assign((uint8_t *)db, (uint8_t *)db + tb.digest_size); free(da); free(db); OSSL.free_(&za); BUND.free_(&zb);
    if (b != r) { *sig = std::string("bundled-wrong-long:") + TN[type]; return what + ": bundled build gives " + pbt::hexs(b, 80) + ", the standard algorithm gives " + pbt::hexs(r, 80); }
    if (a != r) { *sig = std::string("openssl-build-wrong-long:") + TN[type]; return what + ": OpenSSL build gives " + pbt::hexs(a, 80) + ", EVP streaming gives " + pbt::hexs(r, 80); }
    return "";
}

// ---- file level through a shared object
struct WCfg18 { int comp, level, chunk_hash, full_hash; bool manual, uncomp; Bytes dict; long cmax, cmin; };
static bool write_through(Lib &L, const WCfg18 &w, const Bytes &D, const std::vector<std::pair<bool, size_t>> &ops, Bytes &out, std::string &err) {
    int fd = memfd_create("w", 0); zckCtx *z = L.create(); bool ok = L.init_write(z, fd);
    auto io = [&](zck_ioption o, ssize_t v) { if (ok && !L.set_ioption(z, o, v)) { ok = false; err = std::string("option refused: ") + L.get_error(z); } };
    io(ZCK_COMP_TYPE, w.comp); if (w.comp == ZCK_COMP_ZSTD && w.level >= 0) io(ZCK_ZSTD_COMP_LEVEL, w.level);
    if (ok && !w.dict.empty() && !L.set_soption(z, ZCK_COMP_DICT, (const char *)w.dict.data(), w.dict.size())) ok = false;
    if (w.manual) io(ZCK_MANUAL_CHUNK, 1); if (w.cmax > 0) io(ZCK_CHUNK_MAX, w.cmax); if (w.cmin > 0) io(ZCK_CHUNK_MIN, w.cmin);
    if (w.full_hash >= 0) io(ZCK_HASH_FULL_TYPE, w.full_hash); if (w.chunk_hash >= 0) io(ZCK_HASH_CHUNK_TYPE, w.chunk_hash); if (w.uncomp) io(ZCK_UNCOMP_HEADER, 1);
    size_t off = 0;
    for (auto &op : ops) { if (!ok) break; if (op.first) { if (L.end_chunk(z) < 0) ok = false; } else { size_t n = std::min(op.second, D.size() - off); if (n && L.write(z, (const char *)D.data() + off, n) != (ssize_t)n) ok = false; off += n; } }
    if (ok && off < D.size() && L.write(z, (const char *)D.data() + off, D.size() - off) != (ssize_t)(D.size() - off)) ok = false;
    if (ok && !L.close(z)) ok = false;
    if (!ok && err.empty()) err = L.get_error(z);
    if (ok) { struct stat st; fstat(fd, &st); out.resize(st.st_size); if (pread(fd, out.data(), out.size(), 0) != (ssize_t)out.size()) ok = false; }
    L.free_(&z); close(fd); return ok;
}
static bool read_through(Lib &L, const Bytes &f, Bytes &data, int *val, std::string &err) {
    int fd = memfd_create("r", 0); if (::write(fd, f.data(), f.size()) != (ssize_t)f.size()) { close(fd); return false; } lseek(fd, 0, SEEK_SET);
    zckCtx *z = L.create(); bool ok = L.init_read(z, fd); if (ok) *val = L.validate(z);
    std::vector<char> buf(70000); while (ok) { ssize_t g = L.read(z, buf.data(), buf.size()); if (g < 0) { ok = false; break; } if (!g) break; data.insert(data.end(), buf.data(), buf.data() + g); }
    if (ok && !L.close(z)) ok = false; if (!ok) err = L.get_error(z);
    L.free_(&z); close(fd); return ok;
}
static void fill(Bytes &b, uint64_t seed, int kind) { pbt::Rng r(seed); for (auto &x : b) x = kind == 0 ? (uint8_t)r.next() : kind == 1 ? 'a' : (uint8_t)("abcd"[r.next() & 3]); }

static void prop(Ctx &c) {
    load_libs(); std::string sig;
    if (c.chance(3, 4)) {
        int type = (int)c.draw(3); size_t len = c.boolean() ? c.draw(700) : c.skewed(1u << 20); Bytes m(len); fill(m, c.draw(0xffff), (int)c.draw(2));
        std::vector<size_t> cuts; uint64_t style = c.draw(4);
        if (len) { if (style == 1) for (size_t p = 1; p < len && p < 3000; p++) cuts.push_back(p); else if (style == 2) { size_t k = c.draw(30); for (size_t i = 0; i < k; i++) cuts.push_back(c.draw(len)); } else if (style == 3) { static const size_t st[] = {55, 56, 63, 64, 65, 111, 112, 119, 120, 127, 128, 129, 4096, 32768}; size_t s = st[c.pick(14)]; for (size_t p = s; p < len && cuts.size() < 5000; p += s) cuts.push_back(p); }
                   else if (style == 4) { cuts.push_back(0); cuts.push_back(0); cuts.push_back(len / 2); cuts.push_back(len / 2); } }
        std::sort(cuts.begin(), cuts.end());
        c.desc << TN[type] << " message[" << len << "] updates=" << cuts.size() + 1;
        c.label(std::string("digest:") + TN[type]); if (len > 128 && !cuts.empty()) c.nontrivial();
        std::string e = check_digest(type, m, cuts, &sig); if (!e.empty()) c.fail(sig, e);
        return;
    }
    // ---- file level
    WCfg18 w; w.comp = c.chance(2, 3) ? ZCK_COMP_ZSTD : ZCK_COMP_NONE; w.level = c.boolean() ? (int)c.draw(6) : -1; w.chunk_hash = c.boolean() ? (int)c.draw(3) : -1; w.full_hash = c.boolean() ? (int)c.draw(3) : -1;
    w.manual = c.boolean(); w.uncomp = c.rarely(4); if (w.uncomp && (w.chunk_hash == 0 || w.chunk_hash == 3)) w.chunk_hash = 1; w.cmax = c.rarely(3) ? 8192 + (long)c.draw(100000) : 0; w.cmin = w.cmax && c.boolean() ? 1 + (long)c.draw(8000) : 0;
    if (c.rarely(3)) { w.dict.resize(1 + c.draw(2000)); fill(w.dict, c.draw(999), 2); }
    Bytes D(c.boolean() ? c.draw(3000) : c.skewed(400000)); fill(D, c.draw(0xffff), (int)c.draw(2));
    std::vector<std::pair<bool, size_t>> ops; { size_t left = D.size(); int guard = 0; while (left && guard++ < 400) { size_t n = 1 + c.skewed(std::min<size_t>(left, 70000) - 1); n = std::min(n, left); ops.push_back({false, n}); left -= n; if (w.manual && c.rarely(3)) ops.push_back({true, 0}); } }
    c.desc << "file: D[" << D.size() << "] comp=" << w.comp << " level=" << w.level << " chunkhash=" << w.chunk_hash << " fullhash=" << w.full_hash << (w.manual ? " manual" : " auto") << (w.uncomp ? " uncomp" : "") << " dict=" << w.dict.size() << " ops=" << ops.size();
    c.label("file-level");
    Bytes f1, f2; std::string e1, e2; bool o1 = write_through(OSSL, w, D, ops, f1, e1), o2 = write_through(BUND, w, D, ops, f2, e2);
    if (o1 != o2) c.fail("write-outcome-differs", "writing succeeds under one build only (OpenSSL: " + std::string(o1 ? "ok" : e1) + ", bundled: " + (o2 ? "ok" : e2) + ")");
    if (!o1) { c.label("write-refused"); return; }
    if (f1 != f2) { size_t i = 0; while (i < f1.size() && i < f2.size() && f1[i] == f2[i]) i++; c.fail("files-differ", "the two builds produce different files for the same input and options (" + std::to_string(f1.size()) + " vs " + std::to_string(f2.size()) + " bytes, first difference at " + std::to_string(i) + ")"); }
    Bytes d1, d2; int v1 = -9, v2 = -9; std::string r1, r2;
    bool a = read_through(BUND, f1, d1, &v1, r1), b = read_through(OSSL, f2, d2, &v2, r2);
    if (!a || v1 != 1 || d1 != D) c.fail("bundled-cannot-read-openssl-file", "bundled build reading the OpenSSL build's file: ok=" + std::to_string(a) + " validate=" + std::to_string(v1) + " bytes=" + std::to_string(d1.size()) + " " + r1);
    if (!b || v2 != 1 || d2 != D) c.fail("openssl-cannot-read-bundled-file", "OpenSSL build reading the bundled build's file: ok=" + std::to_string(b) + " validate=" + std::to_string(v2) + " bytes=" + std::to_string(d2.size()) + " " + r2);
    if (D.size() > 1000) c.nontrivial();
}

static void enumerate(pbt::Runner &R) {
    load_libs(); uint64_t n = 0; std::string sig;
    // NIST vectors
    struct V { int type; const char *hex; int which; } vec[] = {
        {0, "da39a3ee5e6b4b0d3255bfef95601890afd80709", 0}, {0, "a9993e364706816aba3e25717850c26c9cd0d89d", 1}, {0, "34aa973cd4c4daa4f61eeb2bdbad27316534016f", 2},
        {1, "e3b0c44298fc1c149afbf4c8996fb92427ae41e4649b934ca495991b7852b855", 0}, {1, "ba7816bf8f01cfea414140de5dae2223b00361a396177a9cb410ff61f20015ad", 1}, {1, "cdc76e5c9914fb9281a1c7e284d73e67f1809a48a497200e046d39ccc7112cd0", 2},
        {2, "cf83e1357eefb8bdf1542850d66d8007d620e4050b5715dc83f4a921d36ce9ce47d0d13c5d85f2b0ff8318d2877eec2f63b931bd47417a81a538327af927da3e", 0},
        {2, "ddaf35a193617abacc417349ae20413112e6fa4e89a97ea20a9eeee64b55d39a2192992a274fc1a836ba3c23a3feebbd454d4423643ce80e2a9ac94fa54ca49f", 1},
        {2, "e718483d0ce769644e2e42c7bc15b4638e1f98b13b2044285632a803afa973ebde0ff244877ea60a4cb0432ce577c31beb009c5c2c49aa2e4eadb217ad8cc09b", 2}};
    for (auto &v : vec) {
        Bytes m = v.which == 0 ? Bytes() : v.which == 1 ? Bytes{'a', 'b', 'c'} : Bytes(1000000, 'a'); std::string e; Bytes d = lib_digest(BUND, v.type, m, {}, &e), d2 = lib_digest(OSSL, v.type, m, {}, &e); n += 2;
        if (pbt::hexs(d, 200) != v.hex || pbt::hexs(d2, 200) != v.hex) { if (R.report_enum_failure({}, std::string("nist-vector:") + TN[v.type], std::string(TN[v.type]) + " NIST vector #" + std::to_string(v.which) + ": bundled " + pbt::hexs(d, 200) + " openssl-build " + pbt::hexs(d2, 200) + " expected " + v.hex, "NIST vector")) return; }
    }
    // all lengths 0..300 x types x contents x segmentations
    for (int type = 0; type < 4; type++) for (size_t len = 0; len <= 300; len++) for (int kind = 0; kind < 3; kind++) {
        Bytes m(len); fill(m, len * 7 + kind, kind);
        std::vector<std::vector<size_t>> segs; segs.push_back({}); if (len) { std::vector<size_t> ones; for (size_t p = 1; p < len; p++) ones.push_back(p); segs.push_back(ones); segs.push_back({len / 2}); { std::vector<size_t> two = {len > 64 ? (size_t)64 : len / 3, len > 128 ? (size_t)128 : len / 3 * 2}; std::sort(two.begin(), two.end()); segs.push_back(two); } }
        for (auto &sg : segs) { n++; std::string e = check_digest(type, m, sg, &sig); if (!e.empty()) { std::vector<uint64_t> seq; if (R.report_enum_failure(seq, sig, e, std::string(TN[type]) + " length " + std::to_string(len))) return; } }
    }
    // long messages: the bit count passes 2^32 at 2^29 bytes (every type once per run; thorough: +-1 and the byte count passing 2^32)
    { std::vector<std::pair<int, uint64_t>> lm; uint64_t P29 = 1ull << 29, P32 = 1ull << 32;
      if (!R.opt.tier) lm = {{1, P29}, {0, P29 + 1}, {3, P29 + 77}}; else lm = {{0, P29 - 1}, {0, P29}, {1, P29 - 1}, {1, P29}, {1, P29 + 64}, {2, P29}, {3, P29 + 1}, {1, P32 + 5}, {2, P32}, {0, P32 + 1}};
      size_t idx = 0; for (auto &q : lm) { idx++; if (R.opt.tier && (idx % (size_t)std::max(1, R.opt.nproc)) != (size_t)R.opt.proc_index % (size_t)std::max(1, R.opt.nproc)) continue;
          std::vector<size_t> upd = idx % 3 == 0 ? std::vector<size_t>{1u << 20} : idx % 3 == 1 ? std::vector<size_t>{65537, 4096, 1u << 22} : std::vector<size_t>{32768};
          n++; std::string e = check_long(q.first, q.second, upd, idx, &sig); if (!e.empty()) { if (R.report_enum_failure({}, sig, e, std::string(TN[q.first]) + " long message " + std::to_string(q.second))) return; } } }
    // giant single updates (quick: one of 2^30+ bytes for SHA-256 and SHA-512/128; thorough: every type, and 2^31+ / 2^32+ for SHA-256 and SHA-512)
    { std::vector<std::pair<int, uint64_t>> gm; uint64_t G = 1ull << 30;
      if (!R.opt.tier) gm = {{1, G + 70001}, {3, G + 12345}, {0, G / 2 + 4321}}; else gm = {{0, G / 2 + 4321}, {0, G + 1}, {1, G + 70001}, {2, G + 4097}, {3, G + 12345}, {1, 2 * G + 5}, {2, 2 * G + 64}, {1, 4 * G + 9}, {2, 4 * G + 1}};
      size_t idx = 0; for (auto &q : gm) { idx++; if (R.opt.tier && (idx % (size_t)std::max(1, R.opt.nproc)) != (size_t)R.opt.proc_index % (size_t)std::max(1, R.opt.nproc)) continue;
          n++; std::string e = check_giant(q.first, q.second, &sig); if (!e.empty()) { if (R.report_enum_failure({}, sig, e, std::string(TN[q.first]) + " giant update " + std::to_string(q.second))) return; } } }
    R.st.extra_evals += n; R.st.distinct_by_construction += n; R.st.exhaustive = true;
    R.st.exhaustive_note = "all 4 digest types x every message length 0..300 x 3 contents x up to 4 update segmentations, plus the NIST vectors (empty, 'abc', 10^6 x 'a') for SHA-1/256/512, each through both builds";
}

PBT_MAIN("C18", prop, enumerate)
