// C07  Pinned header validation accepts exactly the authenticated header.
//
// Model: the digest setter succeeds iff the hash type was pinned first, is a known type, the
// string has exactly 2*size(type) characters and every character is in [0-9a-fA-F]; the lead is
// accepted iff (type unset or == file's) and (digest unset or value == file's) and (length
// unset or == file's total header length).  After acceptance the full open succeeds and reports
// the pinned values.  Exhaustive sub-domain: every byte value at every position of the digest
// string of the sample.
#include "pbt/pbt.hpp"
#include "ref/zckref.hpp"
#include "lib/zcklib.hpp"
#include "gen/gens.hpp"

using pbt::Ctx; using pbt::Bytes;

static bool is_hex(uint8_t ch) { return (ch >= '0' && ch <= '9') || (ch >= 'a' && ch <= 'f') || (ch >= 'A' && ch <= 'F'); }
static int hexval(uint8_t ch) { return ch <= '9' ? ch - '0' : (ch | 0x20) - 'a' + 10; }

struct Pin {
    int type_mode = 0;   // 0 unset, else explicit value `type`
    long type = -1;
    bool have_digest = false; std::string digest;
    int len_mode = 0; long len = -1;
    int order = 0;       // where the length option goes: 0 first, 1 between, 2 last
    bool digest_before_type = false;
    bool validate_lead_first = false;
    int retype = 0; long type2 = -1;   // after the digest: set the checksum type once more (1) / and the digest again (2)
};

struct Verdict { bool setters_ok; bool accepted; std::string detail; };

// Drive the library with the pin; returns what happened.  `expect_*` are filled by the model.
static std::string run_pin(const Bytes &file, const ref::Header &h, const Pin &p, bool &model_setter_ok, bool &model_accept, bool &lib_setter_ok, bool &lib_accept) {
    int fd = lib::mkfd(file); zckCtx *z = zck_create(); std::string note;
    if (!zck_init_adv_read(z, fd)) { zck_free(&z); close(fd); return "init_adv_read failed"; }
    lib_setter_ok = true; model_setter_ok = true;
    auto set_len = [&]() { if (p.len_mode) { bool ok = zck_set_ioption(z, ZCK_VAL_HEADER_LENGTH, p.len); bool m = p.len >= 0; if (ok != m) note += "length setter disagreement;"; if (!ok) lib_setter_ok = false; if (!m) model_setter_ok = false; if (!ok) (void)zck_clear_error(z); } };
    auto set_type = [&]() { if (p.type_mode) { bool ok = zck_set_ioption(z, ZCK_VAL_HEADER_HASH_TYPE, p.type); bool m = p.type >= 0 && !(p.digest_before_type && false); if (ok != m) note += "type setter disagreement;"; if (!ok) { lib_setter_ok = false; (void)zck_clear_error(z); } if (!m) model_setter_ok = false; } };
    bool digest_set = false;
    auto set_digest = [&](bool type_known) {
        if (!p.have_digest) return;
        bool ok = zck_set_soption(z, ZCK_VAL_HEADER_DIGEST, p.digest.data(), p.digest.size());
        bool m = type_known && p.type >= 0 && ref::digest_size(p.type) > 0 && (long)p.digest.size() == 2 * ref::digest_size(p.type);
        if (m) for (unsigned char ch : p.digest) if (!is_hex(ch)) m = false;
        if (!ok) lib_setter_ok = false; if (!m) model_setter_ok = false;
        digest_set = ok;
    };
    if (p.order == 0) set_len();
    if (p.digest_before_type) { set_digest(false); if (zck_is_error(z) < 2) { (void)zck_clear_error(z); set_type(); } }
    else { set_type(); if (p.order == 1) set_len(); set_digest(p.type_mode != 0); }
    if (p.order == 2 || (p.order == 1 && p.digest_before_type)) set_len();
    // the checksum type set once more AFTER the digest was pinned: the setter may refuse (then nothing changes) or accept (then the
    // new type is pinned) - but the digest the caller pinned stays pinned either way
    long eff_type = p.type; bool have_eff_type = p.type_mode != 0;
    if (p.retype && !p.digest_before_type && p.type_mode && digest_set) {
        bool ok = zck_set_ioption(z, ZCK_VAL_HEADER_HASH_TYPE, p.type2);
        if (ok) { eff_type = p.type2; note += ""; } else (void)zck_clear_error(z);
        if (ok && p.retype == 2) { bool ok2 = zck_set_soption(z, ZCK_VAL_HEADER_DIGEST, p.digest.data(), p.digest.size()); if (!ok2) { (void)zck_clear_error(z); } }
    }
    if (lib_setter_ok != model_setter_ok) { zck_free(&z); close(fd); return "setter"; }
    if (!lib_setter_ok) { zck_free(&z); close(fd); return ""; }       // both refuse: fine
    // model of acceptance
    model_accept = true;
    if (have_eff_type && eff_type != (long)h.hash_type) model_accept = false;
    if (p.have_digest && model_accept && p.digest.size() != 2 * h.header_digest.size()) model_accept = false;      // a digest pinned for another type cannot equal this file's
    if (p.have_digest && model_accept) {
        for (size_t i = 0; i < h.header_digest.size(); i++) if ((hexval(p.digest[2 * i]) << 4 | hexval(p.digest[2 * i + 1])) != h.header_digest[i]) model_accept = false;
    }
    if (p.len_mode && p.len != (long)h.total_size) model_accept = false;
    bool ok;
    if (p.validate_lead_first) {
        ok = zck_validate_lead(z);
        if (ok) { // stream must be reusable: full open follows
            if (!zck_read_lead(z)) { note += "zck_read_lead failed after a successful zck_validate_lead: " + std::string(zck_get_error(z)) + ";"; ok = false; lib_accept = false; zck_free(&z); close(fd); return "reuse:" + note; }
        }
    } else ok = zck_read_lead(z);
    lib_accept = ok;
    if (ok) {
        if (!zck_read_header(z)) { note += std::string("zck_read_header failed after the lead was accepted: ") + zck_get_error(z) + ";"; zck_free(&z); close(fd); return "header-after-lead:" + note; }
        char *dg = zck_get_header_digest(z); std::string got = dg ? dg : ""; free(dg);
        std::string want = pbt::hexs(h.header_digest.data(), h.header_digest.size(), 1000);
        if (got != want) note += "reported digest " + got + " != file's " + want + ";";
        if (zck_get_header_length(z) != (ssize_t)h.total_size) note += "reported header length differs;";
        if (zck_get_full_hash_type(z) != (int)h.hash_type) note += "reported hash type differs;";
        if (!note.empty()) { zck_free(&z); close(fd); return "report:" + note; }
    }
    zck_free(&z); close(fd);
    return "";
}

static std::string hexstr(const Bytes &d, Ctx *c) {
    static const char *lo = "0123456789abcdef", *up = "0123456789ABCDEF"; std::string s;
    for (uint8_t b : d) { const char *t = c && c->boolean() ? up : lo; s += t[b >> 4]; const char *t2 = c && c->boolean() ? up : lo; s += t2[b & 15]; }
    return s;
}

static void check(Ctx &c, const Bytes &file, const ref::Header &h, const Pin &p, const std::string &what) {
    bool ms = false, ma = false, ls = false, la = false;
    std::string r = run_pin(file, h, p, ms, ma, ls, la);
    std::string ctx = what + " [type=" + (p.type_mode ? std::to_string(p.type) : "unset") + " digest=" + (p.have_digest ? "'" + pbt::json_escape(p.digest) + "'" : "unset") +
        " len=" + (p.len_mode ? std::to_string(p.len) : "unset") + " order=" + std::to_string(p.order) + (p.digest_before_type ? " digest-before-type" : "") + (p.validate_lead_first ? " validate_lead" : "") + (p.retype ? " then type:=" + std::to_string(p.type2) + (p.retype == 2 ? " and the digest again" : "") : "") +
        "; file type=" + std::to_string(h.hash_type) + " len=" + std::to_string(h.total_size) + "]";
    if (r == "setter") c.fail(ls ? "setter-accepts-invalid" : "setter-rejects-valid", std::string("digest/type/length setter ") + (ls ? "accepted" : "refused") + " but the model says the opposite: " + ctx);
    if (!r.empty()) c.fail(r.substr(0, r.find(':')), r + " " + ctx);
    if (ls && la != ma) c.fail(la ? "lead-accepted" : "lead-rejected", std::string("lead ") + (la ? "accepted" : "rejected") + " but stored values " + (ma ? "equal" : "differ from") + " the pinned ones: " + ctx);
}

static void prop(Ctx &c) {
    // sample
    int T = (int)c.draw(3); int comp = c.boolean() ? ZCK_COMP_ZSTD : ZCK_COMP_NONE;
    lib::WCfg w; w.comp = comp; w.full_hash = T; w.manual = true;
    Bytes D(c.draw(300)); gen::fill_random(D.data(), D.size(), c.draw(99));
    lib::WResult wr = lib::write_file(w, D, {});
    if (!wr.ok) c.fail("sample-write", wr.cfg_err + wr.err);
    ref::ParseResult pr = ref::parse(wr.file); if (!pr.ok) c.fail("sample-parse", pr.reason);
    const ref::Header &h = pr.h; int ds = ref::digest_size(T);
    bool detached = c.rarely(4); Bytes file = wr.file; if (detached) { file.resize(h.total_size); memcpy(file.data(), "\0ZHR1", 5); }
    c.desc << "sample type=" << T << " header=" << h.total_size << "B" << (detached ? " detached" : "");
    uint64_t evals = 0;

    // random pin tuple
    Pin p;
    uint64_t tm = c.draw(5); p.type_mode = tm != 0; p.type = tm == 1 || tm == 2 ? T : tm == 3 ? (T + 1 + (long)c.draw(2)) % 4 : tm == 4 ? 4 + (long)c.draw(100) : -1 - (long)c.draw(3);
    uint64_t dm = c.draw(7); p.have_digest = dm != 0;
    int pds = p.type_mode && ref::digest_size(p.type) > 0 ? ref::digest_size(p.type) : ds;
    if (dm == 1 || dm == 2) { Bytes d = h.header_digest; d.resize(pds, 0x11); p.digest = hexstr(d, &c); }
    else if (dm == 3) { Bytes d = h.header_digest; d.resize(pds, 0x11); d[c.pick(d.size())] ^= 1 << c.draw(7); p.digest = hexstr(d, &c); }
    else if (dm == 4) { Bytes d = h.header_digest; d.resize(pds, 0x11); p.digest = hexstr(d, &c); uint64_t k = c.draw(3); if (k == 0) p.digest.pop_back(); else if (k == 1) p.digest += "0"; else if (k == 2) p.digest += p.digest; else p.digest.clear(); }
    else if (dm == 5) { Bytes d = h.header_digest; d.resize(pds, 0x11); p.digest = hexstr(d, &c); p.digest[c.pick(p.digest.size())] = (char)c.draw(255); }
    else if (dm == 6) { Bytes d = c.bytes(pds); p.digest = hexstr(d, &c); }
    else if (dm == 7) { Bytes d = h.header_digest; d.resize(pds, 0x11); p.digest = hexstr(d, nullptr); }
    uint64_t lm = c.draw(5); p.len_mode = lm != 0; p.len = lm == 1 || lm == 2 ? (long)h.total_size : lm == 3 ? (long)h.total_size + 1 : lm == 4 ? (long)h.total_size - 1 : (long)c.draw(2) * 1000 - 1000 + (long)c.draw(3);
    p.order = (int)c.draw(2); p.digest_before_type = p.have_digest && c.rarely(5); p.validate_lead_first = c.boolean();
    if (c.gver >= 2 && p.have_digest && p.type_mode && c.rarely(4)) { p.retype = 1 + (int)c.draw(1); p.type2 = c.boolean() ? p.type : c.boolean() ? T : (long)c.draw(3); c.label("type-set-again-after-digest"); }
    if (p.type_mode || p.have_digest || p.len_mode) c.nontrivial();
    c.label(p.type_mode ? "type-pinned" : "type-unset"); c.label(p.have_digest ? "digest-pinned" : "digest-unset"); c.label(p.len_mode ? "len-pinned" : "len-unset");
    c.desc << " pin{type=" << (p.type_mode ? std::to_string(p.type) : "unset") << " digest=" << (p.have_digest ? pbt::json_escape(p.digest) : "unset") << " len=" << (p.len_mode ? std::to_string(p.len) : "unset") << "}";
    check(c, file, h, p, "random tuple"); evals++;

    // "a file that opens under pinning has byte-for-byte the header the caller authenticated": with the exact
    // digest pinned, a change to any header byte behind the lead must make the full open fail
    {
        lib::Pins pins; pins.type = T; pins.digest_hex = lib::hex_of(h.header_digest); if (c.boolean()) pins.length = (long)h.total_size;
        int fd = lib::mkfd(file);
        { zckCtx *z = zck_create(); bool ok = lib::open_pinned(z, fd, pins); zck_free(&z); if (!ok) { close(fd); c.fail("exact-pin-rejected", "the sample does not open with its own checksum type, digest" + std::string(pins.length >= 0 ? " and header length" : "") + " pinned"); } }
        for (size_t pos = h.lead_size; pos < h.total_size; pos++) {
            uint8_t orig = file[pos];
            for (uint8_t v : {(uint8_t)(orig ^ 1), (uint8_t)(orig ^ 0x80), (uint8_t)(orig + 1 + (pos * 7) % 254)}) {
                if (v == orig) continue;
                if (pwrite(fd, &v, 1, pos) != 1) abort();
                lseek(fd, 0, SEEK_SET); zckCtx *z = zck_create(); bool ok = lib::open_pinned(z, fd, pins); zck_free(&z); evals++;
                if (ok) { close(fd); c.extra_evals = evals; c.fail("pinned-open-of-altered-header", "with the authentic header digest pinned, the file still opens after header byte " + std::to_string(pos) + " (behind the " + std::to_string(h.lead_size) + "-byte lead) was changed from " + std::to_string(orig) + " to " + std::to_string(v)); }
            }
            if (pwrite(fd, &orig, 1, pos) != 1) abort();
        }
        close(fd); c.label("authenticated-header-mutants");
    }

    // length pin vs crafted leads: the stored header-size field is replaced by values that make the total header length
    // differ from the pin by a multiple of 2^32 / 2^31 / 2^16 (any width the comparison might be done in), by +-1, or equal it
    // through a non-canonical (padded) encoding.  Only the lead decision is judged (the header behind such a lead is absent).
    {
        Bytes tcode; ref::ci_put(tcode, (uint64_t)T);
        auto craft = [&](uint64_t hdr_field, size_t pad_to) {
            Bytes f(file.begin(), file.begin() + 5); f.insert(f.end(), tcode.begin(), tcode.end());
            if (pad_to) ref::ci_put_padded(f, hdr_field, pad_to); else ref::ci_put(f, hdr_field);
            f.insert(f.end(), h.header_digest.begin(), h.header_digest.end());
            size_t lead = f.size(); f.insert(f.end(), file.begin() + h.lead_size, file.end()); return std::make_pair(f, lead);
        };
        static const uint64_t deltas[] = {1ull << 32, 2ull << 32, 3ull << 32, 1ull << 31, 1ull << 33, 1ull << 16, 1ull << 40, 1ull << 62, 0xffffffffull, 0x100000001ull, 1, 0};
        uint64_t field0 = h.total_size - h.lead_size;
        for (uint64_t dlt : deltas) for (int mode = 0; mode < 3; mode++) {
            // mode 0: stored total = P + dlt exactly (lead growth compensated); mode 1: field = field0 + dlt (total additionally grows by the longer encoding); mode 2: padded encoding of the original value + dlt
            uint64_t P = h.total_size; uint64_t fieldv = field0 + dlt; size_t pad = 0;
            if (mode == 0) { Bytes probe; ref::ci_put(probe, fieldv); Bytes orig; ref::ci_put(orig, field0); size_t grow = probe.size() - orig.size(); if (fieldv < grow) continue; fieldv -= grow; Bytes again; ref::ci_put(again, fieldv); if (again.size() != probe.size()) continue; }
            if (mode == 2) { Bytes probe; ref::ci_put(probe, fieldv); pad = std::min<size_t>(10, probe.size() + 1 + c.draw(2)); }
            auto cf = craft(fieldv, pad); uint64_t stored_total = (uint64_t)cf.second + fieldv;
            for (int api = 0; api < 2; api++) {
                int fd = lib::mkfd(cf.first); zckCtx *z = zck_create(); bool acc = false;
                if (zck_init_adv_read(z, fd) && zck_set_ioption(z, ZCK_VAL_HEADER_LENGTH, (ssize_t)P)) acc = api ? zck_validate_lead(z) : zck_read_lead(z);
                zck_free(&z); close(fd); evals++;
                bool model = stored_total == P;
                if (acc != model) { c.extra_evals = evals; c.fail(acc ? "lead-accepted" : "lead-rejected", std::string(api ? "zck_validate_lead" : "zck_read_lead") + (acc ? " accepted" : " rejected") + " a lead whose stored total header length is " + std::to_string(stored_total) + " (header-size field " + std::to_string(fieldv) + (pad ? ", padded encoding" : "") + ", lead " + std::to_string(cf.second) + " bytes) under pinned length " + std::to_string(P)); }
            }
        }
        c.label("crafted-length-leads");
    }

    // pin histories: the digest / length options set several times on one context, refused calls (bad string, bad length) in
    // between, the error cleared as a caller would.  What is pinned is what the last ACCEPTED call of each option said; a
    // refused call must not loosen it.  Judged one way (accepted lead => stored values equal the pins in force) whenever a
    // call was refused, both ways when every call was accepted.
    if (c.gver >= 4) {
        int fd = lib::mkfd(file); zckCtx *z = zck_create(); std::string hist; bool refused = false, dead = false, odd = false;
        std::string last_dg; bool have_dg = false; long last_len = -1; bool have_len = false;
        if (!zck_init_adv_read(z, fd) || !zck_set_ioption(z, ZCK_VAL_HEADER_HASH_TYPE, T)) { zck_free(&z); close(fd); c.fail("setter-rejects-valid", "cannot pin the file's own checksum type"); }
        size_t steps = 2 + c.draw(3);
        for (size_t i = 0; i < steps && !dead; i++) {
            bool ok, valid;
            if (c.boolean()) {
                uint64_t k = c.draw(4); std::string dg = hexstr(h.header_digest, &c);
                if (k == 1) { Bytes d = c.bytes(ds); if (d == h.header_digest) d[0] ^= 1; dg = hexstr(d, &c); }
                else if (k == 2) dg[c.pick(dg.size())] = "gG xz-/:@`\x7f"[c.pick(12)];
                else if (k == 3) { if (c.boolean()) dg.pop_back(); else dg += "0"; }
                else if (k == 4) { Bytes d = h.header_digest; d[c.pick(d.size())] ^= (uint8_t)(1u << c.draw(7)); dg = hexstr(d, &c); }
                valid = k != 2 && k != 3; ok = zck_set_soption(z, ZCK_VAL_HEADER_DIGEST, dg.data(), dg.size());
                hist += std::string("digest:=") + (k == 0 ? "exact" : k == 1 ? "other" : k == 2 ? "non-hex" : k == 3 ? "wrong-length" : "one-bit-off") + (ok ? "(accepted) " : "(refused) ");
                if (ok && valid) { last_dg = dg; have_dg = true; }
            } else {
                uint64_t k = c.draw(3); long L = k == 0 ? (long)h.total_size : k == 1 ? (long)h.total_size + 1 : k == 2 ? (long)h.total_size - 1 : -1 - (long)c.draw(5);
                valid = L >= 0; ok = zck_set_ioption(z, ZCK_VAL_HEADER_LENGTH, L);
                hist += "length:=" + std::to_string(L) + (ok ? "(accepted) " : "(refused) ");
                if (ok && valid) { last_len = L; have_len = true; }
            }
            if (ok && !valid) odd = true;                                   // judged by the setter model above, not here
            if (!ok) { refused = true; if (!zck_clear_error(z)) dead = true; }
        }
        // the context initialised once more before the lead is read (a caller that re-points it at another copy of the file by
        // initialising again): what was pinned is still what the lead is judged by
        if (c.gver >= 4 && !dead && c.rarely(4)) { lseek(fd, 0, SEEK_SET); if (!zck_init_adv_read(z, fd)) dead = true; hist += "zck_init_adv_read again; "; c.label("initialised-again-after-pinning"); }
        bool api = c.boolean(); bool acc = !dead && (api ? zck_validate_lead(z) : zck_read_lead(z)); evals++;
        bool must_reject = false;
        if (have_dg) for (size_t i = 0; i < h.header_digest.size(); i++) if ((hexval(last_dg[2 * i]) << 4 | hexval(last_dg[2 * i + 1])) != h.header_digest[i]) must_reject = true;
        if (have_len && last_len != (long)h.total_size) must_reject = true;
        // the pins stay in force for every later lead read on the context: pointed at another file of the same checksum type (zck_set_fd,
        // as when a download manager re-uses its context for the next candidate), a lead with a different checksum must be refused
        if (!odd && acc && !must_reject && have_dg && c.boolean()) {
            Bytes D2(1 + c.draw(300)); gen::fill_random(D2.data(), D2.size(), 1000 + c.draw(99)); lib::WCfg w2 = w; lib::WResult wr2 = lib::write_file(w2, D2, {});
            ref::ParseResult p2 = wr2.ok ? ref::parse(wr2.file) : ref::ParseResult();
            if (wr2.ok && p2.ok && p2.h.header_digest != h.header_digest) {
                int fd2 = lib::mkfd(wr2.file); bool sw = zck_set_fd(z, fd2); bool acc2 = sw && (c.boolean() ? zck_validate_lead(z) : zck_read_lead(z)); evals++; c.label("second-file-on-pinned-context");
                if (acc2) { zck_free(&z); close(fd); close(fd2); c.fail("lead-accepted", "a context with the checksum of file A pinned accepted the lead of file A and then, pointed at file B with zck_set_fd(), accepted B's lead although its stored checksum differs from the pin {" + hist + "}"); }
                close(fd2);
            }
        }
        zck_free(&z); close(fd); c.label(refused ? "pin-history-with-refusal" : "pin-history");
        if (!odd && acc && must_reject) c.fail("lead-accepted", std::string(api ? "zck_validate_lead" : "zck_read_lead") + " accepted a lead whose stored values differ from the pins in force after the history {" + hist + "}");
        if (!odd && !refused && !acc && !must_reject) c.fail("lead-rejected", std::string(api ? "zck_validate_lead" : "zck_read_lead") + " rejected a lead whose stored values equal the pins in force after the history {" + hist + "}");
    }

    // exhaustive: every byte value at every position of the exact digest string
    if (c.rarely(3) || c.tier) {
        c.label("exhaustive-digest-string");
        std::string exact = hexstr(h.header_digest, nullptr);
        for (size_t pos = 0; pos < exact.size(); pos++) for (int v = 0; v < 256; v++) {
            Pin q; q.type_mode = 1; q.type = T; q.have_digest = true; q.digest = exact; q.digest[pos] = (char)v; q.validate_lead_first = (pos + v) & 1;
            check(c, file, h, q, "exhaustive pos=" + std::to_string(pos) + " byte=" + std::to_string(v)); evals++;
        }
        c.extra_distinct = exact.size() * 256;
    }
    c.extra_evals = evals;
}

PBT_MAIN("C07", prop, nullptr)
