// C10  Missing-range requests cover exactly the missing chunks.
//
// Generated: an index of N chunks (synthetic sealed header: stored sizes from 1 byte to 10^12
// so that the range text has every digit count; N <= 12 for the enumerated tier, up to 6000 for
// the large tier so that the range string outgrows its initial 32 KiB buffer and grows twice)
// x a validity marking x a limit in {-1,0,1,2,3,7,127,255}.
// Enumerated tier: ALL 2^N markings of an N-chunk index (N <= 10 quick, 12 thorough) x all 8
// limits.  Large tier: random markings, plus *boundary-fit steering*: missing chunks at the
// front are re-marked valid until some range's text ends exactly at byte 32768 / 49152 / 73728
// of the rendered string (and one byte before / after), i.e. the snprintf-fits-exactly case.
// Markings are written through zck_private.h (flags 0/1; zero-length chunks always valid - what
// every scan establishes); a third of the small cases obtains the marking through the public
// API instead (damage the target, zck_find_valid_chunks, zck_reset_failed_chunks).
// Oracle (set computation over the reference chunk table): ranges ascending, disjoint,
// non-adjacent, start <= end, never inside the header; union == union of the extents of a prefix
// P (file order) of the missing chunks; P == all when limit < 0; |P| >= 1 when anything is
// missing; number of ranges <= max(limit,1) and == zck_get_range_count(); the string is exactly
// "start-end" joined by commas; the range index lists the chunks of P in order with their
// stored sizes, running payload offsets and back-pointers to the right target chunks.
#include "pbt/pbt.hpp"
#include "ref/zckref.hpp"
#include "lib/zcklib.hpp"
#include "gen/gens.hpp"

using pbt::Ctx; using pbt::Bytes;

struct Tab { Bytes hdr; std::vector<uint64_t> start, len; size_t total = 0; };   // per chunk: file offset and stored size

static Tab make_index(Ctx &c, size_t n, bool big_numbers) {
    ref::Header h; h.hash_type = 1; h.chunk_hash_type = c.boolean() ? 3 : 0; h.comp_type = 0; h.flags = 0;
    h.data_digest = Bytes(32, 0); int cds = ref::digest_size(h.chunk_hash_type);
    ref::Entry d; d.digest = Bytes(cds, 0); d.comp_len = 0; d.len = 0;
    bool with_dict = c.rarely(4); if (with_dict) { d.comp_len = d.len = 1 + c.draw(300); gen::fill_random(d.digest.data(), cds, 77); }
    h.entries.push_back(d);
    uint64_t seed = c.draw(0xffff); pbt::Rng r(seed);
    for (size_t i = 0; i < n; i++) {
        ref::Entry e; e.digest.resize(cds); gen::fill_random(e.digest.data(), cds, seed * 131 + i);
        uint64_t k = r.below(10);
        e.comp_len = !big_numbers ? 1 + r.below(k < 5 ? 9 : 900) : k < 3 ? 1 + r.below(9) : k < 6 ? 1 + r.below(5000) : k < 9 ? 1 + r.below(100000000ull) : 1 + r.below(1000000000000ull);
        e.len = e.comp_len; h.entries.push_back(e);
    }
    h.count = h.entries.size();
    Tab t; t.hdr = ref::emit_header(h); t.total = t.hdr.size();
    uint64_t off = t.total; for (auto &e : h.entries) { t.start.push_back(off); t.len.push_back(e.comp_len); off += e.comp_len; }
    return t;
}

struct Rg { uint64_t s, e; };
static std::vector<Rg> merged_prefix(const Tab &t, const std::vector<size_t> &missing, size_t k) {
    std::vector<Rg> v;
    for (size_t j = 0; j < k; j++) { size_t i = missing[j]; uint64_t s = t.start[i], e = t.start[i] + t.len[i] - 1; if (!v.empty() && v.back().e + 1 == s) v.back().e = e; else v.push_back({s, e}); }
    return v;
}
static std::string render(const std::vector<Rg> &v) { std::string s; for (size_t i = 0; i < v.size(); i++) { if (i) s += ","; s += std::to_string(v[i].s) + "-" + std::to_string(v[i].e); } return s; }

// one evaluation on an opened context whose flags are already set; returns "" or failure (sig in *sig)
static std::string evaluate(zckCtx *z, const Tab &t, const std::vector<int> &valid, int limit, std::string *sig, bool *nontriv) {
    std::vector<size_t> missing; for (size_t i = 0; i < valid.size(); i++) if (valid[i] == 0) missing.push_back(i);
    zckRange *r = zck_get_missing_range(z, limit);
    if (!r) { *sig = "null-range"; return std::string("zck_get_missing_range returned NULL: ") + zck_get_error(z); }
    std::string out;
    std::vector<Rg> got; for (zckRangeItem *it = r->first; it; it = it->next) got.push_back({it->start, it->end});
    auto done = [&](const std::string &s, const std::string &m) { *sig = s; out = m; };
    // structural properties of the list
    for (size_t i = 0; i < got.size() && out.empty(); i++) {
        if (got[i].s > got[i].e) done("inverted-range", "range " + std::to_string(got[i].s) + "-" + std::to_string(got[i].e) + " has start > end");
        else if (got[i].s < t.total) done("range-in-header", "range " + std::to_string(got[i].s) + "-" + std::to_string(got[i].e) + " touches the header (" + std::to_string(t.total) + " bytes)");
        else if (i && got[i].s <= got[i - 1].e) done("overlap-or-order", "ranges not ascending / overlapping at position " + std::to_string(i));
        else if (i && got[i].s == got[i - 1].e + 1) done("adjacent-not-merged", "adjacent ranges " + std::to_string(got[i - 1].s) + "-" + std::to_string(got[i - 1].e) + " and " + std::to_string(got[i].s) + "-" + std::to_string(got[i].e) + " were not merged");
    }
    // which prefix of the missing chunks is covered?
    size_t P = (size_t)-1;
    if (out.empty()) {
        uint64_t covered = 0; for (auto &g : got) covered += g.e - g.s + 1;
        uint64_t acc = 0; size_t k = 0; while (k < missing.size() && acc < covered) acc += t.len[missing[k++]];
        std::vector<Rg> want = merged_prefix(t, missing, k);
        bool same = want.size() == got.size(); for (size_t i = 0; same && i < got.size(); i++) same = want[i].s == got[i].s && want[i].e == got[i].e;
        if (!same || acc != covered) done("not-a-prefix", "request {" + render(got).substr(0, 300) + "} is not the union of the extents of a prefix of the missing chunks (closest prefix of " + std::to_string(k) + " chunks gives {" + render(want).substr(0, 300) + "})");
        else P = k;
    }
    if (out.empty()) {
        if (limit < 0 && P != missing.size()) done("unlimited-incomplete", "unlimited request covers " + std::to_string(P) + " of " + std::to_string(missing.size()) + " missing chunks");
        else if (!missing.empty() && P == 0) done("nothing-requested", "chunks are missing but the request is empty");
        else if (limit >= 0 && got.size() > (size_t)std::max(limit, 1)) done("limit-exceeded", std::to_string(got.size()) + " separate ranges with limit " + std::to_string(limit));
        else if (zck_get_range_count(r) != (int)got.size()) done("range-count", "zck_get_range_count says " + std::to_string(zck_get_range_count(r)) + ", the list has " + std::to_string(got.size()) + " ranges");
    }
    // range index
    if (out.empty()) {
        size_t j = 0; uint64_t pay = 0;
        for (zckChunk *ch = r->index.first; ch; ch = ch->next, j++) {
            if (j >= P) { done("range-index-extra", "the range index lists more chunks than the " + std::to_string(P) + " covered"); break; }
            size_t i = missing[j];
            if (ch->comp_length != t.len[i]) { done("range-index-size", "range index entry " + std::to_string(j) + " has stored size " + std::to_string(ch->comp_length) + ", chunk " + std::to_string(i) + " has " + std::to_string(t.len[i])); break; }
            if (ch->start != pay) { done("range-index-offset", "range index entry " + std::to_string(j) + " has payload offset " + std::to_string(ch->start) + ", expected " + std::to_string(pay)); break; }
            if (!ch->src || ch->src->number != i || ch->src != zck_get_chunk(z, i)) { done("range-index-backpointer", "range index entry " + std::to_string(j) + " does not point back at target chunk " + std::to_string(i)); break; }
            pay += t.len[i];
        }
        if (out.empty() && j != P) done("range-index-short", "the range index lists " + std::to_string(j) + " chunks, " + std::to_string(P) + " are covered");
    }
    // rendering
    if (out.empty()) {
        char *s = zck_get_range_char(z, r); std::string want = render(got);
        if (got.empty()) { if (s && s[0]) done("render-empty", "an empty request renders as \"" + std::string(s).substr(0, 80) + "\""); }
        else if (!s) done("render-null", "zck_get_range_char returned NULL for " + std::to_string(got.size()) + " ranges");
        else if (want != s) {
            size_t k = 0; std::string g = s; while (k < g.size() && k < want.size() && g[k] == want[k]) k++;
            done("render-text", "range string has " + std::to_string(g.size()) + " characters, expected " + std::to_string(want.size()) + "; first difference at " + std::to_string(k) + " (\"" + g.substr(k > 20 ? k - 20 : 0, 40) + "\" vs \"" + want.substr(k > 20 ? k - 20 : 0, 40) + "\")");
        }
        free(s);
    }
    if (nontriv) { bool merge = false; for (size_t j = 1; j < (P == (size_t)-1 ? 0 : P); j++) if (missing[j] == missing[j - 1] + 1) merge = true; *nontriv = got.size() >= 2 && merge; }
    zck_range_free(&r);
    return out;
}

// Markings that contain FAILED chunks (flag -1: bytes arrived or were copied and did not match; the state a download or a copy leaves
// behind until zck_reset_failed_chunks()).  The statement speaks of valid and missing chunks only, so either reading of a failed
// chunk is accepted - not requested (what the library does: it waits for the reset) or requested like a missing one - but every
// other clause (ascending, merged, prefix, limit, rendering, range index) must hold under the reading the request follows.
static std::string evaluate3(zckCtx *z, const Tab &t, const std::vector<int> &valid, int limit, std::string *sig, bool *nontriv) {
    std::string e = evaluate(z, t, valid, limit, sig, nontriv); if (e.empty()) return e;
    bool any = false; std::vector<int> alt = valid; for (auto &x : alt) if (x == -1) { x = 0; any = true; }
    if (!any) return e;
    std::string sig2; std::string e2 = evaluate(z, t, alt, limit, &sig2, nontriv); if (e2.empty()) return e2;
    return e + " [with failed chunks read as missing: " + e2.substr(0, 200) + "]";
}

static zckCtx *open_hdr(const Bytes &hdr, int *fdp) { int fd = lib::mkfd(hdr); zckCtx *z = zck_create(); if (!zck_init_read(z, fd)) { zck_free(&z); close(fd); return nullptr; } *fdp = fd; return z; }
static void set_flags(zckCtx *z, const std::vector<int> &v) { size_t i = 0; for (zckChunk *ch = zck_get_first_chunk(z); ch; ch = zck_get_next_chunk(ch), i++) ch->valid = v[i]; }

static const int LIMITS[] = {-1, 0, 1, 2, 3, 7, 127, 255};

static void prop(Ctx &c) {
    uint64_t mode = c.draw(5);
    std::string sig;
    if (mode <= 1 && c.gver >= 4 && c.rarely(3)) {
        // ---- enumerated: all 3^n markings over {valid, missing, failed} x all limits
        size_t n = 1 + c.draw(c.tier ? 6 : 5); Tab t = make_index(c, n, c.boolean());
        int fd; zckCtx *z = open_hdr(t.hdr, &fd); if (!z) c.fail("open", "synthetic header does not open");
        uint64_t evals = 0, nt = 0, total = 1; for (size_t i = 0; i < n; i++) total *= 3; c.desc << "enumerated: " << n << " chunks, all " << total << " markings over valid/missing/failed x 8 limits";
        for (uint64_t m = 0; m < total; m++) {
            std::vector<int> v(n + 1, 1); uint64_t x = m; for (size_t i = 0; i < n; i++) { v[i + 1] = (int)(x % 3) - 1; x /= 3; }
            if (t.len[0] > 0) v[0] = (int)((m * 2654435761u >> 7) % 3) - 1;
            set_flags(z, v);
            for (int lim : LIMITS) { bool ntv = false; std::string e = evaluate3(z, t, v, lim, &sig, &ntv); evals++; if (ntv) nt++;
                if (!e.empty()) { std::string vs; for (int q : v) vs += q == 1 ? "+" : q == 0 ? "0" : "-"; zck_free(&z); close(fd); c.extra_evals = evals; c.fail(sig, e + " [marking " + vs + " limit " + std::to_string(lim) + "]"); } }
        }
        zck_free(&z); close(fd); c.extra_evals = evals; c.extra_distinct = nt; c.nontrivial(); c.label("enumerated-with-failed-chunks");
        return;
    }
    if (mode <= 1) {
        // ---- enumerated: all markings x all limits
        size_t n = 1 + c.draw(c.tier ? 11 : 9); Tab t = make_index(c, n, c.boolean());
        int fd; zckCtx *z = open_hdr(t.hdr, &fd); if (!z) c.fail("open", "synthetic header does not open");
        uint64_t evals = 0, nt = 0; c.desc << "enumerated: " << n << " chunks, all " << (1u << n) << " markings x 8 limits";
        for (uint32_t m = 0; m < (1u << n); m++) {
            std::vector<int> v(n + 1, 1); for (size_t i = 0; i < n; i++) v[i + 1] = (m >> i) & 1;
            if (t.len[0] > 0) v[0] = (m * 2654435761u >> 7) & 1;      // a real dictionary chunk may be missing too
            set_flags(z, v);
            for (int lim : LIMITS) { bool ntv = false; std::string e = evaluate(z, t, v, lim, &sig, &ntv); evals++; if (ntv) nt++;
                if (!e.empty()) { std::string vs; for (int x : v) vs += x ? "+" : "0"; zck_free(&z); close(fd); c.extra_evals = evals; c.fail(sig, e + " [marking " + vs + " limit " + std::to_string(lim) + "]"); } }
        }
        zck_free(&z); close(fd); c.extra_evals = evals; c.extra_distinct = nt; c.nontrivial(); c.label("enumerated");
        return;
    }
    if (mode == 2) {
        // ---- marking obtained through the public API on a real target
        gen::ZFileOpts o; o.max_chunks = 12; o.max_chunk = 300; o.allow_empty = false; o.allow_uncomp = false;
        gen::ZFile b = gen::zfile(c, o); Bytes T = b.file; size_t n = b.nchunks();
        for (size_t i = 0; i < n; i++) if (b.clen(i) && c.boolean()) std::fill(T.begin() + b.off(i), T.begin() + b.off(i) + b.clen(i), 0x5a);
        // a detached header as the target (header + dictionary chunk, identifier ZHR1): the scan looks at the dictionary only, every other chunk stays missing
        bool detached = c.gver >= 4 && c.rarely(4); if (detached) { T.resize(b.h.total_size + b.clen(0)); memcpy(T.data(), "\0ZHR1", 5); }
        int fd = lib::mkfd(T); zckCtx *z = zck_create(); if (!zck_init_read(z, fd)) { zck_free(&z); close(fd); c.fail("open", "target does not open"); }
        bool keep_failed = c.gver >= 4 && c.boolean();
        (void)!zck_find_valid_chunks(z); if (!keep_failed) zck_reset_failed_chunks(z);
        else if (c.boolean()) { size_t k = 0; for (zckChunk *ch = zck_get_first_chunk(z); ch; ch = zck_get_next_chunk(ch), k++) if (ch->valid == -1 && ((k * 7 + n) % 3) == 0) ch->valid = 0; }   // a later round: some failed chunks already reset
        Tab t; t.total = b.h.total_size; std::vector<int> v; size_t i = 0;
        for (zckChunk *ch = zck_get_first_chunk(z); ch; ch = zck_get_next_chunk(ch), i++) { t.start.push_back(b.off(i)); t.len.push_back(b.clen(i)); v.push_back(zck_get_chunk_valid(ch)); }
        // options given on a context whose header is already read (too late to mean anything) must not move the request
        if (c.gver >= 4 && c.rarely(4)) { static const int opts[] = {ZCK_VAL_HEADER_LENGTH, ZCK_VAL_HEADER_HASH_TYPE, ZCK_HASH_CHUNK_TYPE, ZCK_UNCOMP_HEADER, ZCK_CHUNK_MAX}; int oo = opts[c.pick(5)]; ssize_t val = oo == ZCK_VAL_HEADER_LENGTH ? (ssize_t)(1 + c.draw(5000)) : oo == ZCK_CHUNK_MAX ? 100000 : (ssize_t)c.draw(2);
            (void)!zck_set_ioption(z, (zck_ioption)oo, val); if (zck_is_error(z)) (void)!zck_clear_error(z); c.label("option-set-after-open"); }
        int lim = LIMITS[c.pick(8)]; bool ntv = false; std::string vs; for (int x : v) vs += x == 1 ? "+" : x == 0 ? "0" : "-";
        c.desc << "public-API marking " << vs << " limit " << lim << " on {" << b.desc << "}" << (detached ? " as a detached header" : "");
        std::string e = evaluate3(z, t, v, lim, &sig, &ntv); zck_free(&z); close(fd);
        c.label(keep_failed ? "public-api-marking-with-failed-chunks" : "public-api-marking"); if (detached) c.label("detached-header-target"); if (ntv) c.nontrivial();
        if (!e.empty()) c.fail(sig, e);
        return;
    }
    // ---- large index; optional boundary-fit steering
    bool want_steer = mode >= 4 && c.chance(2, 3);
    size_t n = mode == 3 ? 20 + c.draw(400) : want_steer ? 5000 + c.draw(3000) : 2500 + c.draw(3500); Tab t = make_index(c, n, true);
    std::vector<int> v(n + 1, 1); uint64_t dens = 1 + c.draw(3);
    if (want_steer) { pbt::Rng r(c.draw(0xffff)); for (size_t i = 1; i <= n; i++) v[i] = (i & 1) ^ (r.below(10) == 0); }   // mostly alternating: as many separate ranges as possible
    else for (size_t i = 1; i <= n; i++) v[i] = c.draw(dens + 1) == 0 ? 1 : 0;            // mostly missing, islands of valid chunks
    if (c.rarely(10)) std::fill(v.begin(), v.end(), 1);                                     // nothing missing at all
    bool with_failed = c.gver >= 4 && !want_steer && c.rarely(3); if (with_failed) { pbt::Rng r(c.draw(0xffff)); for (size_t i = 1; i <= n; i++) if (r.below(6) == 0) v[i] = -1; }
    int lim = (want_steer || c.boolean()) ? -1 : LIMITS[c.pick(8)];
    std::string steer = "none";
    if (want_steer) {
        static const long targets[] = {32768, 49152, 73728}; long target = targets[c.pick(3)] + (long)c.draw(2) - 1;
        // text length (with trailing comma) of every range of the full request
        for (int attempt = 0; attempt < 3 && steer == "none"; attempt++) {
            std::vector<size_t> missing; for (size_t i = 0; i < v.size(); i++) if (!v[i]) missing.push_back(i);
            std::vector<Rg> rg = merged_prefix(t, missing, missing.size()); std::vector<long> cum; long a = 0;
            for (auto &g : rg) { a += (long)(std::to_string(g.s).size() + std::to_string(g.e).size() + 2); cum.push_back(a); }
            // subset-sum over the text lengths of the first ranges: which sets of early ranges can be dropped (marked valid)?
            size_t j0 = 0; while (j0 < rg.size() && cum[j0] < target) j0++;
            if (j0 >= rg.size()) break;
            const long MAXNEED = 800; size_t pool = std::min<size_t>(j0, 300);
            std::vector<int> from(MAXNEED + 1, -1), prev(MAXNEED + 1, -1); from[0] = -2;
            for (size_t q = 0; q < pool; q++) { long l = cum[q] - (q ? cum[q - 1] : 0); for (long sum = MAXNEED; sum >= l; sum--) if (from[sum] == -1 && from[sum - l] != -1 && from[sum - l] != (int)q) { from[sum] = (int)q; prev[sum] = (int)(sum - l); } }
            for (size_t j = j0; j < rg.size() && steer == "none"; j++) {
                long need = cum[j] - target; if (need > MAXNEED) break;
                if (from[need] == -1) continue;
                std::vector<size_t> drop; for (long sum = need; sum > 0; sum = prev[sum]) drop.push_back((size_t)from[sum]);
                for (size_t q : drop) for (size_t i = 0; i < v.size(); i++) if (!v[i] && t.start[i] >= rg[q].s && t.start[i] <= rg[q].e) v[i] = 1;
                steer = "text of a range ends exactly at byte " + std::to_string(target);
            }
        }
    }
    c.desc << (mode == 3 ? "medium" : "large") << " index: " << n << " chunks, limit " << lim << ", steering: " << steer;
    c.label(mode == 3 ? "medium" : "large"); if (steer != "none") c.label("boundary-fit");
    int fd; zckCtx *z = open_hdr(t.hdr, &fd); if (!z) c.fail("open", "synthetic header does not open");
    set_flags(z, v); bool ntv = false; std::string e = evaluate3(z, t, v, lim, &sig, &ntv); zck_free(&z); close(fd);
    if (ntv) c.nontrivial(); if (with_failed) c.label("failed-chunks-in-marking");
    if (!e.empty()) c.fail(sig, e);
}

PBT_MAIN("C10", prop, nullptr)
