#!/opt/veriftools/pyvenv/bin/python3
"""C04 / C11 (tool level): the real `zckdl` binary (ASan build from /repo's working tree) against a
loopback HTTP range server.

Hypothesis generates (segments of B, edits giving A, initial target, server range cap, multipart
boundary style, optional kill of zckdl after N server-side bytes followed by a plain re-run).
A and B are produced by the ASan `zck` tool (-m -s MARK), so both are ordinary files.  The server
(this process, a thread) answers single ranges with 206 + Content-Range, several ranges with
multipart/byteranges, and more ranges than its cap with 200 + the whole file; it logs every
request.  Oracle: zckdl exit 0 => target == B; the multiset of body bytes served with 206 after
the header phase equals the stored extents of the chunks of B (independent Python parser of the
zchunk header) that are neither intact in the target nor present in A with equal digest and sizes.
With an interruption: the re-run must exit 0 with target == B and must not request any chunk that
was completely and correctly on disk when zckdl was killed.
Driver contract: --seed --tier --counters --proc --nproc --replaydir [--replay file.json] [--cases N]"""
import argparse, hashlib, http.server, json, os, re, resource, shutil, signal, socketserver, subprocess, sys, tempfile, threading, time

ap = argparse.ArgumentParser()
ap.add_argument("--seed", type=int, default=1); ap.add_argument("--tier", default="quick"); ap.add_argument("--counters")
ap.add_argument("--proc", type=int, default=0); ap.add_argument("--nproc", type=int, default=1); ap.add_argument("--replaydir", default="replay-new")
ap.add_argument("--replay"); ap.add_argument("--cases", type=int, default=0); ap.add_argument("--property", default="C04")
A = ap.parse_args()
BUILD = os.environ.get("VERIF_BUILD", os.path.join(os.path.dirname(os.path.dirname(os.path.abspath(__file__))), "build"))
TOOLS = os.path.join(BUILD, "asan", "tools")
WORK = tempfile.mkdtemp(prefix="c04z-", dir="/dev/shm")
MARK = "@#@"
stats = {"evaluations": 0, "labels": {}, "samples": [], "distinct": set(), "failures": []}


def label(l):
    stats["labels"][l] = stats["labels"].get(l, 0) + 1


# ---------------------------------------------------------------- independent header parser
def ci(b, p):
    v = 0; i = 0
    while True:
        x = b[p + i]; v |= (x & 0x7f) << (7 * i); i += 1
        if x & 0x80:
            return v, p + i
        if i > 10:
            raise ValueError("integer too long")


DS = {0: 20, 1: 32, 2: 64, 3: 16}


def dig(t, data):
    return {0: hashlib.sha1, 1: hashlib.sha256, 2: hashlib.sha512, 3: hashlib.sha512}[t](data).digest()[:DS[t]]


def parse_zck(b):
    assert b[:5] == b"\0ZCK1"
    p = 5; ht, p = ci(b, p); hl, p = ci(b, p); p += DS[ht]; lead = p; total = lead + hl
    q = lead + DS[ht]; flags, q = ci(b, q); comp, q = ci(b, q)
    if flags & 2:
        n, q = ci(b, q)
        for _ in range(n):
            _, q = ci(b, q); sz, q = ci(b, q); q += sz
    isz, q = ci(b, q); iend = q + isz; cht, q = ci(b, q); cnt, q = ci(b, q); ent = []; off = total
    while q < iend:
        d = b[q:q + DS[cht]]; q += DS[cht]
        if flags & 4:
            q += DS[cht]
        cl, q = ci(b, q); ln, q = ci(b, q); ent.append({"digest": d, "comp": cl, "len": ln, "off": off}); off += cl
    return {"total": total, "cht": cht, "entries": ent}


# ---------------------------------------------------------------- loopback range server
class State:
    file = b""; max_ranges = 10 ** 6; boundary = "00000000000000000001"; quoted = False; log = []; served = 0; kill_after = None; victim = None; vary = False; multiparts = 0; no_ranges = False; redirect = False


class H(http.server.BaseHTTPRequestHandler):
    protocol_version = "HTTP/1.1"

    def log_message(self, *a):
        pass

    def do_GET(self):
        f = State.file; rh = self.headers.get("Range")
        if State.redirect and not self.path.startswith("/mirror/"):      # a mirror redirector: every request is first answered with 302 to the place that serves ranges
            self.send_response(302); self.send_header("Location", "/mirror" + self.path); self.send_header("Content-Length", "0"); self.end_headers(); return
        if not rh or State.no_ranges:           # a server without range support answers every request with the whole file
            self.send_response(200); self.send_header("Content-Length", str(len(f))); self.end_headers(); self.out(f); State.log.append((None, 200)); return
        m = re.match(r"bytes=(.*)$", rh.strip()); rg = []
        for part in m.group(1).split(","):
            a, b = part.strip().split("-"); a = int(a); b = min(int(b), len(f) - 1) if b else len(f) - 1
            rg.append((a, b))
        if len(rg) > State.max_ranges or any(a > b or a >= len(f) for a, b in rg):
            self.send_response(200); self.send_header("Content-Length", str(len(f))); self.end_headers(); State.log.append((rg, 200)); self.out(f); return
        State.log.append((rg, 206))
        if len(rg) == 1:
            a, b = rg[0]; body = f[a:b + 1]
            self.send_response(206); self.send_header("Content-Range", "bytes %d-%d/%d" % (a, b, len(f))); self.send_header("Content-Type", "application/octet-stream")
        else:
            body = b""
            State.multiparts += 1; bnd = State.boundary
            if State.vary and State.multiparts > 1:      # like Apache / nginx: a fresh boundary for every response
                tag = str(State.multiparts); bnd = (bnd[:-len(tag)] + tag) if len(bnd) > len(tag) else tag
            for a, b in rg:
                body += ("\r\n--%s\r\nContent-Type: application/octet-stream\r\nContent-Range: bytes %d-%d/%d\r\n\r\n" % (bnd, a, b, len(f))).encode() + f[a:b + 1]
            body += ("\r\n--%s--\r\n" % bnd).encode()
            self.send_response(206); bd = '"%s"' % bnd if State.quoted else bnd
            self.send_header("Content-Type", "multipart/byteranges; boundary=" + bd)
        self.send_header("Content-Length", str(len(body))); self.end_headers(); self.out(body)

    def out(self, data):
        # small writes so that an interruption can fall anywhere; kill the client after kill_after bytes
        step = 97
        for i in range(0, len(data), step):
            piece = data[i:i + step]
            if State.kill_after is not None and State.served + len(piece) >= State.kill_after:
                cut = max(0, State.kill_after - State.served)
                try:
                    self.wfile.write(piece[:cut]); self.wfile.flush()
                except Exception:
                    pass
                time.sleep(0.05)
                if State.victim:
                    try:
                        State.victim.kill()
                    except Exception:
                        pass
                State.kill_after = None
                return
            try:
                self.wfile.write(piece); self.wfile.flush()
            except Exception:
                return
            State.served += len(piece)


class TS(socketserver.ThreadingMixIn, http.server.HTTPServer):
    daemon_threads = True; allow_reuse_address = True

    def handle_error(self, request, client_address):
        pass        # a killed client resets its connection: expected


srv = TS(("127.0.0.1", 0), H); PORT = srv.server_address[1]
threading.Thread(target=srv.serve_forever, daemon=True).start()


def limits():
    resource.setrlimit(resource.RLIMIT_CPU, (60, 62))


def mkzck(path_dat, path_zck, segs, comp):
    open(path_dat, "wb").write(b"".join(MARK.encode() + bytes(s) for s in segs))
    cmd = [os.path.join(TOOLS, "zck"), "-m", "-s", MARK]
    if comp:
        cmd += ["--compression-format", comp]
    cmd += ["-o", path_zck, path_dat]
    r = subprocess.run(cmd, stdin=subprocess.DEVNULL, stdout=subprocess.PIPE, stderr=subprocess.PIPE, preexec_fn=limits)
    return r.returncode == 0


def expand(seg):
    seed, n, kind = seg
    if kind == 0:
        return hashlib.shake_128(b"%d" % seed).digest(n)
    return (b"line %d of the segment\n" % seed) * (n // 20 + 1)


def run_zckdl(d, have_a, victim_hook=False, extra=()):
    cmd = [os.path.join(TOOLS, "zckdl")] + list(extra) + (["-s", os.path.join(d, "A.zck")] if have_a else []) + ["http://127.0.0.1:%d/B.zck" % PORT]
    env = dict(os.environ); env["no_proxy"] = "*"; env.pop("http_proxy", None)
    p = subprocess.Popen(cmd, cwd=os.path.join(d, "t"), stdin=subprocess.DEVNULL, stdout=subprocess.PIPE, stderr=subprocess.PIPE, preexec_fn=limits, env=env)
    if victim_hook:
        State.victim = p
    try:
        out, err = p.communicate(timeout=120)
    except subprocess.TimeoutExpired:
        p.kill(); out, err = p.communicate(); return -99, err.decode("latin1")[-400:]
    State.victim = None
    return p.returncode, err.decode("latin1")[-500:]


def need_set(B, hb, A_entries, T):
    """extents of B's chunks neither intact in T nor available in A"""
    need = []
    for e in hb["entries"]:
        if e["comp"] == 0:
            continue
        t = T[e["off"]:e["off"] + e["comp"]]
        if len(t) == e["comp"] and dig(hb["cht"], t) == e["digest"]:
            continue
        if any(a["digest"] == e["digest"] and a["comp"] == e["comp"] and a["len"] == e["len"] for a in A_entries):
            continue
        need.append((e["off"], e["off"] + e["comp"] - 1))
    return need


def merge(rs):
    out = []
    for a, b in sorted(rs):
        if out and a <= out[-1][1] + 1:
            out[-1] = (out[-1][0], max(out[-1][1], b))
        else:
            out.append((a, b))
    return out


def check_case(case):
    d = os.path.join(WORK, "case"); shutil.rmtree(d, ignore_errors=True); os.makedirs(os.path.join(d, "t"))
    segsB = [expand(s) for s in case["segs"]]
    segsA = list(segsB)
    for (op, i, seg) in case["edits"]:
        if op == 0 and segsA:
            segsA[i % len(segsA)] = expand(seg)
        elif op == 1:
            segsA.insert(i % (len(segsA) + 1), expand(seg))
        elif segsA:
            del segsA[i % len(segsA)]
    if not mkzck(os.path.join(d, "B.dat"), os.path.join(d, "B.zck"), segsB, case["comp"]):
        label("zck-failed"); return None
    have_a = case["have_a"] and mkzck(os.path.join(d, "A.dat"), os.path.join(d, "A.zck"), segsA, case["comp"])
    B = open(os.path.join(d, "B.zck"), "rb").read(); hb = parse_zck(B)
    Aent = parse_zck(open(os.path.join(d, "A.zck"), "rb").read())["entries"] if have_a else []
    if have_a and case.get("damage_a") and Aent:
        # the local source is damaged inside one of its chunks (bit rot): that chunk is not available from it any more, and
        # nothing that is already correct in the target may suffer from it
        Ab = bytearray(open(os.path.join(d, "A.zck"), "rb").read()); pa = parse_zck(bytes(Ab)); cand = [e for e in Aent if e["comp"]]
        if cand:
            e = cand[case["damage_a"] % len(cand)]; Ab[e["off"] + (case["damage_a"] // 7) % e["comp"]] ^= 0x20
            open(os.path.join(d, "A.zck"), "wb").write(bytes(Ab)); label("source-with-a-damaged-chunk")
            Aent = [x for x in Aent if x["comp"] == 0 or dig(pa["cht"], bytes(Ab[x["off"]:x["off"] + x["comp"]])) == x["digest"]]
    # initial target
    t0 = case["target"]
    if t0 == 1 and have_a:
        T0 = open(os.path.join(d, "A.zck"), "rb").read()
    elif t0 == 2:
        T0 = bytearray(B)
        for k, e in enumerate(hb["entries"]):
            if e["comp"] and (case["damage"] >> k) & 1:
                T0[e["off"]:e["off"] + e["comp"]] = b"\0" * e["comp"]
        T0 = bytes(T0)
    elif t0 == 3:
        T0 = B
    elif t0 == 4:            # an older, longer file under the same name whose chunks are all B's: only the final truncation is left to do
        T0 = B + bytes((i * 7 + 3) & 255 for i in range(1 + case["damage"] % 5000))
    else:
        T0 = b""
    tp = os.path.join(d, "t", "B.zck")
    if T0:
        open(tp, "wb").write(T0)
    State.file = B; State.max_ranges = case["max_ranges"]; State.boundary = case["boundary"]; State.quoted = case["quoted"]; State.log = []; State.served = 0; State.kill_after = None; State.vary = case.get("vary_boundary", False); State.multiparts = 0
    State.no_ranges = bool(case.get("no_ranges")) and not case["kill_after"]; State.redirect = bool(case.get("redirect"))
    if State.redirect:
        label("via-redirect")
    hp = min(max(89, hb["total"]), len(B))
    on_disk_at_kill = None
    if case["kill_after"]:
        State.kill_after = case["kill_after"]
        rc, err = run_zckdl(d, have_a, victim_hook=True)
        State.kill_after = None
        S = open(tp, "rb").read() if os.path.exists(tp) else b""
        S1 = bytearray(S.ljust(hp, b"\0")); S1[:hp] = B[:hp]
        on_disk_at_kill = [(e["off"], e["off"] + e["comp"] - 1) for e in hb["entries"] if e["comp"] and dig(hb["cht"], bytes(S1[e["off"]:e["off"] + e["comp"]])) == e["digest"] and len(S1) >= e["off"] + e["comp"]]
        label("interrupted" if rc != 0 else "finished-before-kill")
        State.log = []; T_before = bytes(S1)
    else:
        T1 = bytearray(T0.ljust(hp, b"\0")); T1[:hp] = B[:hp]; T_before = bytes(T1)
    if State.no_ranges:
        # no range support at all: zckdl falls back to fetching the whole file (or gives up with --fail-no-ranges);
        # only the end state is judged - success means the target is B
        fnr = bool(case.get("fail_no_ranges")); label("server-without-ranges" + ("+fail-no-ranges" if fnr else ""))
        rc, err = run_zckdl(d, have_a, extra=(["--fail-no-ranges"] if fnr else []) + ["-v"] * (case.get("damage", 0) % 3))
        State.no_ranges = False
        if rc == -99:
            return ("zckdl-hang", "zckdl did not finish within 120 s (server without range support)")
        if rc < 0 or rc == 77 or "Sanitizer" in err or "runtime error" in err:
            return ("zckdl-crash", "zckdl died (status %d) against a server without range support: %s" % (rc, err[-300:]))
        if fnr:
            return None if rc != 0 else ("fail-no-ranges-ignored", "zckdl --fail-no-ranges exits 0 although the server answered the range request with 200")
        if rc != 0:
            return ("zckdl-fails", "zckdl exits %d against a server without range support (whole-file fallback): %s" % (rc, err[-300:]))
        T = open(tp, "rb").read()
        return None if T == B else ("target-differs", "whole-file fallback: zckdl exits 0 but the target (%d bytes) differs from B (%d bytes)" % (len(T), len(B)))
    rc, err = run_zckdl(d, have_a)
    if rc == -99:
        return ("zckdl-hang", "zckdl did not finish within 120 s")
    if rc != 0:
        if rc < 0 or rc == 77 or "Sanitizer" in err or "runtime error" in err:
            return ("zckdl-crash", "zckdl died (status %d): %s" % (rc, err[-300:]))
        return ("zckdl-fails", "zckdl exits %d on a well-formed scenario: %s" % (rc, err[-300:]))
    T = open(tp, "rb").read()
    if T != B:
        return ("target-differs", "zckdl exits 0 but the target (%d bytes) differs from B (%d bytes)" % (len(T), len(B)))
    body206 = [r for (rg, st) in State.log if st == 206 and rg for r in rg if r[0] >= hb["total"]]
    got = merge(body206); want = merge(need_set(B, hb, Aent, T_before))
    total_req = sum(b - a + 1 for a, b in body206)
    if got != want or total_req != sum(b - a + 1 for a, b in got):
        return ("fetch-set", "body ranges served with 206 %s differ from the extents that had to be fetched %s (requested %d bytes in total)" % (got[:8], want[:8], total_req))
    if on_disk_at_kill:
        for a, b in body206:
            for x, y in on_disk_at_kill:
                if a <= y and b >= x:
                    return ("refetched-complete-chunk", "after the interruption the re-run requested %d-%d, which overlaps a chunk (%d-%d) that was completely on disk" % (a, b, x, y))
    if any(len(rg) > 1 for rg, st in State.log if st == 206 and rg):
        label("multipart")
    if any(st == 200 for rg, st in State.log):
        label("range-cap-fallback")
    return None


def describe(case):
    return "segs=%d edits=%d have_a=%s target=%d comp=%s max_ranges=%d boundary=%r%s quoted=%s kill_after=%s" % (len(case["segs"]), len(case["edits"]), case["have_a"], case["target"], case["comp"], case["max_ranges"], case["boundary"], "(varies)" if case.get("vary_boundary") else "", case["quoted"], case["kill_after"]) + (" via-302-redirect" if case.get("redirect") else "")


def write_replay(case, sig, msg):
    d = os.path.join(A.replaydir, A.property); os.makedirs(d, exist_ok=True)
    p = os.path.join(d, hashlib.sha1(json.dumps(case, sort_keys=True).encode()).hexdigest()[:16] + ".json")
    json.dump({"property": A.property, "sig": sig, "msg": msg, "desc": describe(case), "case": case}, open(p, "w"), indent=1); return p


def finish(rc):
    if A.counters:
        json.dump({"property": A.property, "seed": A.seed, "evaluations": stats["evaluations"], "inner_evaluations": 0, "discards": 0, "known_hits": 0, "distinct_by_construction": 0, "exhaustive": False,
                   "exhaustive_note": "", "labels": stats["labels"], "samples": stats["samples"][:8], "failures": stats["failures"], "distinct": sorted(stats["distinct"])}, open(A.counters, "w"))
    shutil.rmtree(WORK, ignore_errors=True); sys.exit(rc)


if A.replay:
    case = json.load(open(A.replay))["case"]; r = check_case(case)
    if r:
        print("REPLAY-FAIL property=%s file=%s sig=%s msg=%s" % (A.property, A.replay, r[0], r[1])); finish(1)
    print("REPLAY-PASS property=%s file=%s" % (A.property, A.replay)); finish(0)

from hypothesis import given, settings, seed, strategies as st, HealthCheck, Phase  # noqa: E402

seg = st.tuples(st.integers(0, 10 ** 6), st.one_of(st.integers(1, 60), st.integers(1, 3000), st.integers(1, 40000)), st.integers(0, 1))


@st.composite
def cases(draw):
    c = draw(base_cases())
    # steer a sixth of the scenarios into the range-cap ladder: many separate missing ranges against a server that accepts only
    # one or two ranges per request and answers anything bigger with 200 + the whole file (Apache MaxRanges style)
    if draw(st.integers(0, 5)) == 0 and not c["kill_after"]:
        while len(c["segs"]) < 7:
            c["segs"].append([draw(st.integers(0, 10 ** 6)), draw(st.integers(20, 400)), draw(st.integers(0, 1))])
        c["target"] = 2; c["damage"] = draw(st.sampled_from([0b0101010101010101, 0b1010101010101010, 0b0110110110110110, 0b1001001001001001])); c["max_ranges"] = draw(st.sampled_from([1, 2, 2])); c["no_ranges"] = False
    return c


@st.composite
def base_cases(draw):
    return {"segs": [list(x) for x in draw(st.lists(seg, min_size=1, max_size=14))], "edits": [[a, b, list(c)] for a, b, c in draw(st.lists(st.tuples(st.integers(0, 2), st.integers(0, 20), seg), max_size=4))],
            "have_a": draw(st.booleans()), "target": draw(st.integers(0, 4)), "damage": draw(st.integers(0, 2 ** 15)), "comp": draw(st.sampled_from([None, "none", "zstd"])),
            "max_ranges": draw(st.sampled_from([1, 2, 7, 127, 10 ** 6, 10 ** 6])), "boundary": draw(st.one_of(st.just("00000000000000000001"), st.text(alphabet="0123456789abcdefXYZ", min_size=1, max_size=40), st.sampled_from(["a+b", "x(1)y", "gc0p4Jq0M2Yt08jU534c0p", "=_?:'a"]))),
            "quoted": draw(st.booleans()), "vary_boundary": draw(st.booleans()), "no_ranges": draw(st.integers(0, 7)) == 0, "fail_no_ranges": draw(st.integers(0, 2)) == 0, "redirect": draw(st.integers(0, 3)) == 0, "damage_a": draw(st.one_of(st.just(0), st.just(0), st.integers(1, 10 ** 6))), "kill_after": draw(st.integers(1, 60000)) if A.property == "C11" else draw(st.one_of(st.none(), st.none(), st.none(), st.integers(1, 30000)))}


N = A.cases or (25 if A.tier == "quick" else 400)
failure = []


@seed(A.seed)
@settings(max_examples=N, database=None, deadline=None, report_multiple_bugs=False, suppress_health_check=list(HealthCheck), phases=[Phase.generate, Phase.shrink])
@given(cases())
def prop(case):
    stats["evaluations"] += 1
    if len(stats["samples"]) < 8:
        stats["samples"].append(describe(case))
    r = check_case(case)
    if (case["have_a"] and case["edits"]) or case["target"] == 2 or case["kill_after"]:
        stats["distinct"].add(int(hashlib.sha1(json.dumps(case, sort_keys=True).encode()).hexdigest()[:15], 16))
    if r:
        failure[:] = [(case, r)]; raise AssertionError(r[0] + ": " + r[1])


try:
    prop()
except AssertionError:
    case, (sig, msg) = failure[0]
    conf = sum(1 for _ in range(3) if check_case(case))
    if conf >= 2:
        p = write_replay(case, sig, msg); stats["failures"].append({"sig": sig, "msg": msg + " [" + describe(case) + "]", "replay": p, "known": False})
        print("FAILURE property=%s sig=%s replay=%s msg=%s" % (A.property, sig, p, msg)); finish(1)
    label("unreproducible-" + sig)
finish(0)
