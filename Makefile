# Builds the library under test straight from $(REPO)'s working tree (never from /repo/_build)
# plus the property binaries.  Driven by ./check (which decides, by content hash of the
# sources, when the library objects must be thrown away) and by ./setup.
REPO    ?= /repo
B       ?= build
VERSION := $(shell sed -n "s/.*version *: *'\([0-9.]*\)'.*/\1/p" $(REPO)/meson.build | head -1)

CC      := clang
CXX     := clang++
SAN     := -fsanitize=address,undefined -fno-sanitize-recover=undefined
DEFS    := -DZCHUNK_ZSTD -DZCHUNK_OPENSSL -DZCHUNK_ZCHUNK_VERIF -D_GNU_SOURCE
LIBSRC  := $(wildcard $(REPO)/src/lib/*.c) $(wildcard $(REPO)/src/lib/buzhash/*.c) $(wildcard $(REPO)/src/lib/comp/*.c) \
           $(wildcard $(REPO)/src/lib/comp/nocomp/*.c) $(wildcard $(REPO)/src/lib/comp/zstd/*.c) \
           $(wildcard $(REPO)/src/lib/hash/*.c) $(wildcard $(REPO)/src/lib/hash/openssl/*.c) \
           $(wildcard $(REPO)/src/lib/index/*.c) $(wildcard $(REPO)/src/lib/dl/*.c)
BUNDLED := $(wildcard $(REPO)/src/lib/hash/bundled/*.c) $(wildcard $(REPO)/src/lib/hash/bundled/*/*.c)
LIBSRC_NOSSL := $(filter-out $(REPO)/src/lib/hash/openssl/%,$(LIBSRC)) $(BUNDLED)

INC     := -I$(B)/include -I$(REPO)/src/lib -I$(REPO)/src
LDLIBS  := -lzstd -lcrypto

# ---------------------------------------------------------------- asan flavour (default)
A       := $(B)/asan
AOBJ    := $(patsubst $(REPO)/src/lib/%.c,$(A)/lib/%.o,$(LIBSRC))
ACFLAGS := -O1 -g -fno-omit-frame-pointer $(SAN) -fsanitize=fuzzer-no-link $(DEFS) $(INC)
ACXXFLAGS := -std=gnu++17 -O1 -g -fno-omit-frame-pointer $(SAN) $(DEFS) $(INC) -I. -Wno-deprecated-declarations

# ---------------------------------------------------------------- plain flavour (no sanitizer; speed-sensitive enumerations, wrap)
P       := $(B)/plain
POBJ    := $(patsubst $(REPO)/src/lib/%.c,$(P)/lib/%.o,$(LIBSRC))
PCFLAGS := -O2 -g $(DEFS) $(INC)
PCXXFLAGS := -std=gnu++17 -O2 -g $(DEFS) $(INC) -I. -Wno-deprecated-declarations

# ---------------------------------------------------------------- tsan flavour
T       := $(B)/tsan
TOBJ    := $(patsubst $(REPO)/src/lib/%.c,$(T)/lib/%.o,$(LIBSRC))
TCFLAGS := -O1 -g -fsanitize=thread $(DEFS) $(INC)
TCXXFLAGS := -std=gnu++17 -O1 -g -fsanitize=thread $(DEFS) $(INC) -I. -Wno-deprecated-declarations

EXTRA_LDFLAGS_C11 := -Wl,--wrap=write
HDRS    := pbt/pbt.hpp $(wildcard ref/*.hpp) lib/zcklib.hpp $(wildcard gen/*.hpp) $(wildcard props/*.hpp)

.PHONY: all header
.SECONDARY:

header: $(B)/include/zck.h
$(B)/include/zck.h: $(REPO)/include/zck.h.in $(REPO)/meson.build
	@mkdir -p $(dir $@)
	sed 's/@version@/$(VERSION)/' $< > $@

$(A)/lib/%.o: $(REPO)/src/lib/%.c $(B)/include/zck.h
	@mkdir -p $(dir $@)
	$(CC) $(ACFLAGS) -MMD -c $< -o $@
$(P)/lib/%.o: $(REPO)/src/lib/%.c $(B)/include/zck.h
	@mkdir -p $(dir $@)
	$(CC) $(PCFLAGS) -MMD -c $< -o $@
$(T)/lib/%.o: $(REPO)/src/lib/%.c $(B)/include/zck.h
	@mkdir -p $(dir $@)
	$(CC) $(TCFLAGS) -MMD -c $< -o $@

$(A)/libzck.a: $(AOBJ)
	rm -f $@; ar rcs $@ $^
$(P)/libzck.a: $(POBJ)
	rm -f $@; ar rcs $@ $^
$(T)/libzck.a: $(TOBJ)
	rm -f $@; ar rcs $@ $^

# property binaries: props/<ID>.cpp -> build/asan/<ID>
$(A)/%.o: props/%.cpp $(HDRS) $(B)/include/zck.h
	@mkdir -p $(dir $@)
	$(CXX) $(ACXXFLAGS) -c $< -o $@
$(A)/%: $(A)/%.o $(A)/libzck.a
	$(CXX) $(SAN) $< $(A)/libzck.a $(LDLIBS) $(EXTRA_LDFLAGS_$*) -o $@
# libFuzzer variant of the same property
$(A)/fuzz_%.o: props/%.cpp $(HDRS) $(B)/include/zck.h
	@mkdir -p $(dir $@)
	$(CXX) $(ACXXFLAGS) -DPBT_FUZZ -fsanitize=fuzzer-no-link -c $< -o $@
$(A)/fuzz_%: $(A)/fuzz_%.o $(A)/libzck.a
	$(CXX) $(SAN) -fsanitize=fuzzer $< $(A)/libzck.a $(LDLIBS) -o $@

$(P)/%.o: props/%.cpp $(HDRS) $(B)/include/zck.h
	@mkdir -p $(dir $@)
	$(CXX) $(PCXXFLAGS) -c $< -o $@
$(P)/%: $(P)/%.o $(P)/libzck.a
	$(CXX) $< $(P)/libzck.a $(LDLIBS) $(EXTRA_LDFLAGS_$*) -o $@

$(T)/%.o: props/%.cpp $(HDRS) $(B)/include/zck.h
	@mkdir -p $(dir $@)
	$(CXX) $(TCXXFLAGS) -c $< -o $@
# hidden-static-state libc functions are wrapped so that TSan sees concurrent calls (lib/nonreentrant.c)
NONREENT := sigaction signal chdir close strtok localtime gmtime asctime ctime strsignal setenv unsetenv putenv setlocale drand48 lrand48 mrand48 srand48 tmpnam l64a ecvt fcvt mblen mbtowc wctomb
empty :=
space := $(empty) $(empty)
comma := ,
NRWRAP := -Wl,$(subst $(space),$(comma),$(addprefix --wrap=,$(NONREENT)))
$(T)/nonreentrant.o: lib/nonreentrant.c
	@mkdir -p $(dir $@)
	$(CC) -O1 -g -fsanitize=thread -c $< -o $@
$(T)/%: $(T)/%.o $(T)/libzck.a $(T)/nonreentrant.o
	$(CXX) -fsanitize=thread $< $(T)/libzck.a $(T)/nonreentrant.o $(LDLIBS) -lpthread $(NRWRAP) -o $@

# ---------------------------------------------------------------- command-line tools (ASan)
TOOLSRC := $(REPO)/src
TOOLCFLAGS := -O1 -g $(SAN) $(DEFS) $(INC)
$(A)/tools/util_common.o: $(TOOLSRC)/util_common.c $(B)/include/zck.h
	@mkdir -p $(dir $@)
	$(CC) $(TOOLCFLAGS) -c $< -o $@
$(A)/tools/%.o: $(TOOLSRC)/%.c $(B)/include/zck.h
	@mkdir -p $(dir $@)
	$(CC) $(TOOLCFLAGS) -c $< -o $@
$(A)/tools/zckdl: $(A)/tools/zck_dl.o $(A)/tools/util_common.o $(A)/libzck.a
	$(CC) $(SAN) $^ $(LDLIBS) -lcurl -o $@
$(A)/tools/%: $(A)/tools/%.o $(A)/tools/util_common.o $(A)/libzck.a
	$(CC) $(SAN) $^ $(LDLIBS) -o $@
tools: $(A)/tools/zck $(A)/tools/unzck $(A)/tools/zck_read_header $(A)/tools/zck_delta_size $(A)/tools/zck_gen_zdict $(A)/tools/zckdl

# ---------------------------------------------------------------- fault-injection builds (C12)
WRAP := -Wl,--wrap=read,--wrap=write,--wrap=lseek,--wrap=ftruncate,--wrap=pread,--wrap=pread64,--wrap=pwrite,--wrap=pwrite64,--wrap=readv,--wrap=writev,--wrap=copy_file_range,--wrap=sendfile,--wrap=sendfile64,--wrap=lseek64,--wrap=ftruncate64
$(A)/iofault.o: lib/iofault.c
	@mkdir -p $(dir $@)
	$(CC) -O1 -g $(SAN) -c $< -o $@
$(A)/C12: $(A)/C12.o $(A)/iofault.o $(A)/libzck.a
	$(CXX) $(SAN) $(A)/C12.o $(A)/iofault.o $(A)/libzck.a $(LDLIBS) $(WRAP) -o $@
$(A)/tools-wrap/%: $(A)/tools/%.o $(A)/tools/util_common.o $(A)/iofault.o $(A)/libzck.a
	@mkdir -p $(dir $@)
	$(CC) $(SAN) $^ $(LDLIBS) $(WRAP) -o $@

# ---------------------------------------------------------------- dual hash back ends (C18)
S       := $(B)/so
SOFLAGS := -O1 -g -fPIC $(SAN) -DZCHUNK_ZSTD -D_GNU_SOURCE $(INC)
$(S)/ossl.so: $(LIBSRC) $(B)/include/zck.h
	@mkdir -p $(S)
	$(CC) $(SOFLAGS) -DZCHUNK_OPENSSL -shared -Wl,-Bsymbolic $(LIBSRC) -lzstd -lcrypto -o $@
$(S)/bundled.so: $(LIBSRC_NOSSL) $(B)/include/zck.h
	@mkdir -p $(S)
	$(CC) $(SOFLAGS) -shared -Wl,-Bsymbolic $(LIBSRC_NOSSL) -lzstd -o $@

$(A)/C18: $(A)/C18.o $(S)/ossl.so $(S)/bundled.so
	$(CXX) $(SAN) $(A)/C18.o -ldl $(LDLIBS) -o $@

# ---------------------------------------------------------------- coverage flavour (selftest/coverage.py: which library lines do the checks reach?)
# continuous counter mode (%c in LLVM_PROFILE_FILE) keeps counts of forked workers that _exit or die
V       := $(B)/cov
VOBJ    := $(patsubst $(REPO)/src/lib/%.c,$(V)/lib/%.o,$(LIBSRC))
VCOV    := -fprofile-instr-generate -fcoverage-mapping -mllvm -runtime-counter-relocation
VCFLAGS := -O0 -g $(VCOV) $(DEFS) $(INC)
VCXXFLAGS := -std=gnu++17 -O1 -g $(DEFS) $(INC) -I. -Wno-deprecated-declarations
$(V)/lib/%.o: $(REPO)/src/lib/%.c $(B)/include/zck.h
	@mkdir -p $(dir $@)
	$(CC) $(VCFLAGS) -c $< -o $@
$(V)/libzck.a: $(VOBJ)
	rm -f $@; ar rcs $@ $^
$(V)/%.o: props/%.cpp $(HDRS) $(B)/include/zck.h
	@mkdir -p $(dir $@)
	$(CXX) $(VCXXFLAGS) -c $< -o $@
$(V)/iofault.o: lib/iofault.c
	@mkdir -p $(dir $@)
	$(CC) -O1 -g -c $< -o $@
$(V)/C12: $(V)/C12.o $(V)/iofault.o $(V)/libzck.a
	$(CXX) $(VCOV) $(V)/C12.o $(V)/iofault.o $(V)/libzck.a $(LDLIBS) $(WRAP) -o $@
$(V)/%: $(V)/%.o $(V)/libzck.a
	$(CXX) $(VCOV) $< $(V)/libzck.a $(LDLIBS) $(EXTRA_LDFLAGS_$*) -lpthread -o $@
$(V)/tools/%.o: $(TOOLSRC)/%.c $(B)/include/zck.h
	@mkdir -p $(dir $@)
	$(CC) $(VCFLAGS) -c $< -o $@
$(V)/tools/zckdl: $(V)/tools/zck_dl.o $(V)/tools/util_common.o $(V)/libzck.a
	$(CC) $(VCOV) $^ $(LDLIBS) -lcurl -o $@
$(V)/tools/%: $(V)/tools/%.o $(V)/tools/util_common.o $(V)/libzck.a
	$(CC) $(VCOV) $^ $(LDLIBS) -o $@

-include $(AOBJ:.o=.d) $(POBJ:.o=.d) $(TOBJ:.o=.d)
