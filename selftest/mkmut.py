#!/usr/bin/env python3
"""mkmut.py <name> <repo-relative-file> <old> <new> [count]: writes selftest/mutants/<name>.diff replacing the
(unique unless count given) occurrence of <old> by <new> in the file as it is in /repo's working tree."""
import sys, os, subprocess, tempfile, shutil
name, rel, old, new = sys.argv[1:5]
src = open(os.path.join("/repo", rel)).read()
n = src.count(old)
if n != 1 and len(sys.argv) < 6:
    sys.exit("pattern occurs %d times" % n)
tmp = tempfile.mkdtemp()
try:
    a = os.path.join(tmp, "a", rel); b = os.path.join(tmp, "b", rel)
    os.makedirs(os.path.dirname(a)); os.makedirs(os.path.dirname(b))
    open(a, "w").write(src); open(b, "w").write(src.replace(old, new, 1))
    d = subprocess.run(["diff", "-u", "a/" + rel, "b/" + rel], cwd=tmp, stdout=subprocess.PIPE, text=True).stdout
    out = os.path.join(os.path.dirname(os.path.abspath(__file__)), "mutants", name + ".diff")
    open(out, "w").write(d); print("wrote", out, len(d.splitlines()), "lines")
finally:
    shutil.rmtree(tmp)
