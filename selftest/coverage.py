#!/usr/bin/env python3
"""Which lines of the library do the registered checks actually reach?

  selftest/coverage.py [--ids C01,C02,...] [--scale 0.3] [--show file.c] [--out build/cov-report.txt]

Builds a clang source-coverage flavour of the library (build/cov, no sanitizers) and of every
property binary, runs each property with its quick-tier configuration (case counts scaled by
--scale), merges the profiles and prints per-file line coverage plus the uncovered line ranges
of /repo/src/lib.  Continuous counter mode keeps the counts of forked workers.  This is a
generator-health instrument (DESIGN 7.3), not a check: nothing here decides a property.
"""
import argparse, glob, json, os, re, shutil, subprocess, sys

ROOT = os.path.dirname(os.path.dirname(os.path.abspath(__file__)))
sys.path.insert(0, ROOT)
import importlib.machinery, importlib.util
loader = importlib.machinery.SourceFileLoader("checkmod", os.path.join(ROOT, "check"))
spec = importlib.util.spec_from_loader("checkmod", loader); chk = importlib.util.module_from_spec(spec); loader.exec_module(chk)

ap = argparse.ArgumentParser()
ap.add_argument("--ids"); ap.add_argument("--scale", type=float, default=0.3); ap.add_argument("--show"); ap.add_argument("--out")
ap.add_argument("--keep", action="store_true", help="do not re-run, only report from the existing profile")
a = ap.parse_args()
ids = a.ids.split(",") if a.ids else [i for i in sorted(chk.CHECKS) if i != "C18"]
BUILD = chk.BUILD; REPO = chk.REPO
covdir = os.path.join(BUILD, "cov"); prof = os.path.join(covdir, "prof")
bins = []
for i in ids:
    for r in chk.CHECKS[i]["runs"]:
        if r.get("kind", "pbt") == "pbt":
            bins.append((i, r))
targets = sorted({"cov/" + os.path.basename(r["bin"]) for _, r in bins})
chk.build(targets)
if not a.keep:
    shutil.rmtree(prof, ignore_errors=True); os.makedirs(prof)
    env = dict(os.environ); env.update(VERIF_ROOT=ROOT, VERIF_REPO=REPO, VERIF_BUILD=BUILD, PBT_TIER="quick", VERIF_TOOLS_FLAVOUR="cov")
    env["LLVM_PROFILE_FILE"] = os.path.join(prof, "p-%p%c.profraw")
    procs = []
    for i, r in bins:
        work = os.path.join(BUILD, "run", "cov-" + i); shutil.rmtree(work, ignore_errors=True); os.makedirs(work)
        n = max(5, int(r["cases"]["quick"] * a.scale))
        cmd = [os.path.join(covdir, os.path.basename(r["bin"])), "--seed", "1017", "--cases", str(n), "--tier", "quick", "--counters", os.path.join(work, "c.json"),
               "--known", os.path.join(ROOT, "known_findings.txt"), "--replaydir", os.path.join(work, "replay-new"), "--proc", "0", "--nproc", "1"]
        if "size" in r: cmd += ["--size", str(r["size"])]
        if "cpu_limit" in r: cmd += ["--cpu-limit", str(r["cpu_limit"])]
        if r.get("enum"): cmd += ["--enum"]
        cmd += [x for x in r.get("args", []) if x != "--no-fork"]
        procs.append((i, subprocess.Popen(cmd, cwd=ROOT, env=env, stdout=subprocess.DEVNULL, stderr=subprocess.PIPE, text=True)))
        # committed regression cases as well
        for path in sorted(glob.glob(os.path.join(ROOT, "replay", i, "*.case"))):
            subprocess.run([cmd[0], "--replay", path, "--known", os.path.join(ROOT, "known_findings.txt")], cwd=ROOT, env=env, stdout=subprocess.DEVNULL, stderr=subprocess.DEVNULL)
    for i, p in procs:
        _, e = p.communicate()
        print("ran", i, "rc", p.returncode, file=sys.stderr)
raws = glob.glob(os.path.join(prof, "*.profraw"))
pd = os.path.join(covdir, "all.profdata")
subprocess.run(["llvm-profdata", "merge", "-sparse", "-o", pd] + raws, check=True)
objs = []
for t in targets:
    objs += ["-object", os.path.join(BUILD, t)]
objs = objs[1:]
rep = subprocess.run(["llvm-cov", "export", "-format=text", "-instr-profile=" + pd] + objs, stdout=subprocess.PIPE, text=True, check=True).stdout
data = json.loads(rep)["data"][0]
out = []
tot = [0, 0]
for f in sorted(data["files"], key=lambda f: f["filename"]):
    fn = f["filename"]
    if "/src/" not in fn or "uthash" in fn or "win32" in fn:
        continue
    s = f["summary"]["lines"]; tot[0] += s["covered"]; tot[1] += s["count"]
    # uncovered lines from segments: (line, col, count, hasCount, isRegionEntry, isGap)
    unc = set(); cov = set()
    segs = f["segments"]
    for k, sg in enumerate(segs):
        line, col, cnt, has, entry, gap = sg[:6]
        if not has or gap:
            continue
        end = segs[k + 1][0] if k + 1 < len(segs) else line
        for ln in range(line, end + (0 if k + 1 < len(segs) and segs[k + 1][1] == 1 else 1)):
            (cov if cnt else unc).add(ln)
    unc -= cov
    rng = [];
    for ln in sorted(unc):
        if rng and ln == rng[-1][1] + 1: rng[-1][1] = ln
        else: rng.append([ln, ln])
    out.append("%-44s %4d/%4d lines %5.1f%%  uncovered: %s" % (fn.replace(REPO + "/", ""), s["covered"], s["count"], s["percent"], " ".join("%d" % x if x == y else "%d-%d" % (x, y) for x, y in rng)))
out.append("TOTAL %d/%d = %.1f%%" % (tot[0], tot[1], 100.0 * tot[0] / max(1, tot[1])))
txt = "\n".join(out)
print(txt)
if a.out:
    open(a.out, "w").write(txt + "\n")
if a.show:
    subprocess.run(["llvm-cov", "show", "-instr-profile=" + pd] + objs + [os.path.join(REPO, a.show)])
