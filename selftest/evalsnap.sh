#!/bin/sh
# evalsnap.sh ID V [ids] [--skip-confirm]: evaluate from the committed snapshot /tmp/vsnap, copy the kept directory back
id=$1; v=$2; ids=${3:-$1}; extra=$4
cd /tmp/vsnap
timeout 2700 python3 selftest/seeded.py ${SEEDED_WT:-/tmp/wt/r4-$id} $id $v --demo "sh build.sh" --ids $ids $extra > /tmp/mres/s-$id-$v.txt 2>&1
mkdir -p /verif/seeded/$id-$v; cp -r /tmp/vsnap/seeded/$id-$v/. /verif/seeded/$id-$v/
echo "$id-$v done: $(grep -E 'confirm:' /tmp/mres/s-$id-$v.txt | tail -1) $(grep -E '^  C[0-9]+: rc' /tmp/mres/s-$id-$v.txt | cut -c1-150 | tr '\n' ' ')"
