#!/usr/bin/env python3
"""Confirm and evaluate an independently seeded change.

  selftest/seeded.py <worktree> <ID> <variant A|B> --demo "<command run inside SEEDED/<variant>>" [--ids C05,C17] [--tier quick]

1. In the sub-agent's worktree: apply SEEDED/<variant>/patch.diff, rebuild, run the project's test
   suite (must pass), run the demonstration (must fail); undo the change, rebuild, run the
   demonstration again (must pass).
2. Run the registered checks (default: the check of <ID>) against a scratch copy of /repo with
   the patch applied (selftest/mutant.py) and record which of them raise a VIOLATION.
3. Keep everything as /verif/seeded/<ID>-<variant>/ (patch.diff, demonstration files, meta.json)."""
import argparse, json, os, shutil, subprocess, sys, time

ROOT = os.path.dirname(os.path.dirname(os.path.abspath(__file__)))
ap = argparse.ArgumentParser()
ap.add_argument("wt"); ap.add_argument("id"); ap.add_argument("variant"); ap.add_argument("--demo", required=True); ap.add_argument("--ids"); ap.add_argument("--tier", default="quick"); ap.add_argument("--seed", default="1")
ap.add_argument("--skip-confirm", action="store_true")
a = ap.parse_args()
sd = os.path.join(a.wt, "SEEDED", a.variant); patch = os.path.join(sd, "patch.diff")


def sh(cmd, cwd, timeout=900):
    p = subprocess.run(cmd, cwd=cwd, shell=True, stdout=subprocess.PIPE, stderr=subprocess.STDOUT, text=True, errors="replace", timeout=timeout)
    return p.returncode, p.stdout


ran = []
confirmed = None
if not a.skip_confirm:
    rc, out = sh("git checkout -- src include && git apply --check %s && git apply %s" % (patch, patch), a.wt); ran.append(("git apply", rc))
    if rc != 0:
        print("patch does not apply:", out[-400:]); sys.exit(2)
    rc, out = sh("meson compile -C _build 2>&1 | tail -3", a.wt); ran.append(("meson compile (patched)", rc))
    rc, out = sh("meson test -C _build 2>&1 | grep -E '^(Ok|Fail|Expected Fail|Unexpected|Timeout):'", a.wt); tests_patched = " ".join(out.split()); ran.append(("meson test (patched): " + tests_patched, rc))
    suite_ok = "Fail: 0" in tests_patched and "Timeout: 0" in tests_patched
    rc_demo_patched, out1 = sh(a.demo, sd); ran.append(("demo with the change: exit %d: %s" % (rc_demo_patched, out1.strip().splitlines()[-1][:200] if out1.strip() else ""), rc_demo_patched))
    sh("git checkout -- src include", a.wt)
    rc, out = sh("meson compile -C _build 2>&1 | tail -3", a.wt)
    rc_demo_clean, out2 = sh(a.demo, sd); ran.append(("demo without the change: exit %d: %s" % (rc_demo_clean, out2.strip().splitlines()[-1][:200] if out2.strip() else ""), rc_demo_clean))
    confirmed = suite_ok and rc_demo_patched != 0 and rc_demo_clean == 0
    print("confirm: suite_ok=%s demo(patched)=%d demo(clean)=%d -> %s" % (suite_ok, rc_demo_patched, rc_demo_clean, "CONFIRMED" if confirmed else "NOT CONFIRMED"))
    if not confirmed:
        print(out1[-600:]); print(out2[-600:])

ids = (a.ids or a.id).split(",")
res = {}
p = subprocess.run([sys.executable, os.path.join(ROOT, "selftest", "mutant.py"), "--patch", patch, "--ids", ",".join(ids), "--tier", a.tier, "--seed", a.seed], cwd=ROOT, stdout=subprocess.PIPE, stderr=subprocess.STDOUT, text=True, errors="replace")
for line in p.stdout.splitlines():
    for i in ids:
        if line.startswith(i + ": "):
            res[i] = line[len(i) + 2:].strip()[:400]
    print("  " + line[:300])

dst = os.path.join(ROOT, "seeded", "%s-%s" % (a.id, a.variant)); os.makedirs(dst, exist_ok=True)
old = {}
if os.path.exists(os.path.join(dst, "meta.json")):
    try:
        old = json.load(open(os.path.join(dst, "meta.json")))
    except Exception:
        pass
for f in os.listdir(sd):
    src = os.path.join(sd, f)
    if os.path.isfile(src) and os.path.getsize(src) < 400000 and not f.endswith((".o", ".so")) and not os.access(src, os.X_OK) or f.endswith(".sh"):
        shutil.copy(src, dst)
meta = {}
try:
    meta = json.load(open(os.path.join(sd, "meta.json")))
except Exception:
    pass
meta["breaks_property"] = a.id
meta["demo_command"] = a.demo
if confirmed is not None:
    meta["confirmed_by_us"] = {"ok": confirmed, "steps": [r[0] for r in ran]}
elif "confirmed_by_us" in old:
    meta["confirmed_by_us"] = old["confirmed_by_us"]
if "note" in old and "note" not in meta:
    meta["note"] = old["note"]
cr = old.get("check_results", {}); cr.update({i: {"tier": a.tier, "seed": a.seed, "result": res.get(i, "?")} for i in ids}); meta["check_results"] = cr
json.dump(meta, open(os.path.join(dst, "meta.json"), "w"), indent=1)
print("kept", dst)
