#!/usr/bin/env python3
"""Writes seeded/RESULTS.md from seeded/*/meta.json."""
import json, os, glob
ROOT = os.path.dirname(os.path.dirname(os.path.abspath(__file__)))
rows = []
for d in sorted(glob.glob(os.path.join(ROOT, "seeded", "*-*"))):
    try:
        m = json.load(open(os.path.join(d, "meta.json")))
    except Exception:
        continue
    name = os.path.basename(d)
    conf = m.get("confirmed_by_us", {}).get("ok")
    checks = []
    for cid, r in sorted(m.get("check_results", {}).items()):
        res = r.get("result", "")
        det = "DETECTED" in res
        sig = ""
        if "violation sig=" in res:
            sig = res.split("violation sig=")[1].split(":")[0] if False else res.split("violation sig=")[1].split(" ")[0].rstrip(":")
        checks.append("%s: %s%s" % (cid, "detected" if det else "missed", " (" + sig + ")" if sig else ""))
    rows.append((name, m.get("title", "")[:150], m.get("needs_to_manifest", "")[:220], "yes" if conf else "NO" if conf is False else "?", "; ".join(checks), m.get("note", "")))
with open(os.path.join(ROOT, "seeded", "RESULTS.md"), "w") as f:
    f.write("# Independently seeded changes and which checks catch them\n\n"
            "Each change was written by a sub-agent that saw only the property's text and a scratch worktree of /repo (nothing from /verif).\n"
            "`confirmed` = we re-ran it ourselves in the worktree: patch applies, the repository's 37 tests still pass, the demonstration fails\n"
            "with the change and passes without it. Check results are from `selftest/seeded.py` (quick tier, VERIF_SEED=1 unless noted in meta.json),\n"
            "run against a scratch copy of /repo with the patch applied.\n\n")
    f.write("| id | change | needs to manifest | confirmed | checks | note |\n|---|---|---|---|---|---|\n")
    for r in rows:
        f.write("| " + " | ".join(x.replace("|", "/").replace("\n", " ") for x in r) + " |\n")
print("wrote seeded/RESULTS.md with", len(rows), "rows")
