#!/usr/bin/env python3
"""Sensitivity self-test: apply a patch (or revert a /repo commit) to a scratch copy of the
library sources, run the quick checks for the given properties against it and report whether
each raised a VIOLATION.  The scratch copy and its build output are removed afterwards.

  selftest/mutant.py --revert <commit> --ids C01,C20
  selftest/mutant.py --patch selftest/mutants/x.diff --ids C05 [--tier quick] [--save-replay]
"""
import argparse, os, shutil, subprocess, sys, tempfile, time, glob

ROOT = os.path.dirname(os.path.dirname(os.path.abspath(__file__)))
ap = argparse.ArgumentParser()
ap.add_argument("--patch"); ap.add_argument("--revert"); ap.add_argument("--ids", required=True)
ap.add_argument("--tier", default="quick"); ap.add_argument("--seed", default="1")
ap.add_argument("--save-replay", action="store_true", help="copy the replay files of detected violations to replay/<ID>/")
ap.add_argument("--name", default=None)
a = ap.parse_args()

tmp = tempfile.mkdtemp(prefix="zck-mut.")
bdir = "build-mut-%d" % os.getpid()
try:
    for d in ("src", "include", "test"):
        shutil.copytree(os.path.join("/repo", d), os.path.join(tmp, d))
    shutil.copy("/repo/meson.build", tmp)
    if a.revert:
        diff = subprocess.run(["git", "-C", "/repo", "show", a.revert], stdout=subprocess.PIPE, check=True).stdout
        r = subprocess.run(["patch", "-R", "-p1", "-d", tmp], input=diff, stdout=subprocess.PIPE, stderr=subprocess.STDOUT)
    else:
        diff = open(a.patch, "rb").read()
        r = subprocess.run(["patch", "-p1", "-d", tmp], input=diff, stdout=subprocess.PIPE, stderr=subprocess.STDOUT)
    if r.returncode != 0:
        print("PATCH FAILED:", r.stdout.decode()[-800:]); sys.exit(2)
    res = {}
    for pid in a.ids.split(","):
        env = dict(os.environ, VERIF_REPO=tmp, VERIF_BUILD=bdir, VERIF_SEED=a.seed, VERIF_EVIDENCE_DIR=os.path.join(ROOT, bdir, "evidence"), VERIF_REPLAY_NEW=os.path.join(ROOT, bdir, "replay-new"))
        t0 = time.time()
        p = subprocess.run([os.path.join(ROOT, "check"), pid, "--tier", a.tier], cwd=ROOT, env=env, stdout=subprocess.PIPE, stderr=subprocess.PIPE, text=True)
        viol = [l for l in p.stdout.splitlines() if l.startswith("VIOLATION")]
        res[pid] = (p.returncode, viol, time.time() - t0)
        sigs = [l for l in p.stderr.splitlines() if "violation sig=" in l]
        print("%s: rc=%d %s in %.0fs  %s" % (pid, p.returncode, "DETECTED" if viol else "missed", time.time() - t0, "; ".join(s[:160] for s in sigs[:3])))
        if p.returncode not in (0, 1) or (p.returncode == 1 and not viol):
            print(p.stderr[-1500:])
        if a.save_replay and viol:
            os.makedirs(os.path.join(ROOT, "replay", pid), exist_ok=True)
            for l in viol[:2]:
                rp = l.split("replay=")[1].strip()
                if os.path.exists(rp) and not os.path.abspath(rp).startswith(os.path.join(ROOT, "replay") + os.sep):
                    name = (a.name or (a.revert or os.path.basename(a.patch)).replace(".diff", "")) + "-" + os.path.basename(rp)[:8] + (".case" if rp.endswith(".case") else ".fuzz")
                    shutil.copy(rp, os.path.join(ROOT, "replay", pid, name))
                    print("  saved", name)
finally:
    shutil.rmtree(tmp, ignore_errors=True)
    shutil.rmtree(os.path.join(ROOT, bdir), ignore_errors=True)
