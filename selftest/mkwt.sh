#!/bin/sh
# selftest/mkwt.sh <dir>: scratch git worktree of /repo at <dir> with a configured and compiled meson build in <dir>/_build
set -e
d="$1"
git -C /repo worktree add --detach "$d" HEAD >/dev/null 2>&1
cd "$d"
meson setup _build -Dwerror=false --buildtype=debugoptimized --wrap-mode=nodownload >/dev/null 2>&1
meson compile -C _build >/dev/null 2>&1
mkdir -p SEEDED
echo "ready $d"
