#!/usr/bin/env python3
"""Regenerates MANIFEST.json from checks_cfg.py (single source of truth)."""
import json, os, sys
ROOT = os.path.dirname(os.path.abspath(__file__))
sys.path.insert(0, ROOT)
from checks_cfg import CHECKS, NOT_APPLICABLE, HOOK_COMMITS

props = [json.loads(l)["id"] for l in open(os.path.join(ROOT, "properties.jsonl"))]
checks = []
for pid in props:
    if pid not in CHECKS:
        continue
    c = CHECKS[pid]
    checks.append({
        "property_id": pid,
        "quick_cmd": "./check %s --tier quick" % pid,
        "thorough_cmd": "./check %s --tier thorough" % pid,
        "evidence_file": "evidence/%s.json" % pid,
        "replay_cmd_template": "./check %s --replay {path}" % pid,
        "engine": c.get("engine", "pbt-core"),
        "level_claimed": {"category": c["level"], "text": c["level_text"], "design_ref": c.get("design_ref", "DESIGN.md section 4, " + pid)},
        "level_note": c["level_note"],
        "technique": c["technique"],
    })
na = [{"property_id": p, "reason": NOT_APPLICABLE[p]} for p in props if p not in CHECKS and p in NOT_APPLICABLE]
for p in props:
    if p not in CHECKS and p not in NOT_APPLICABLE:
        na.append({"property_id": p, "reason": "check not built yet (in progress); the technique applies, see DESIGN.md section 4"})
na = [x for i, x in enumerate(na) if x["property_id"] not in [y["property_id"] for y in na[:i]]]
m = {
    "version": 1,
    "setup_cmd": "./setup",
    "hooks": {
        "guard": "ZCHUNK_ZCHUNK_VERIF",
        "enable": "the harness compiles /repo/src/lib/**/*.c itself (Makefile) with -DZCHUNK_ZCHUNK_VERIF; no source hook is currently needed, the harness links the library's non-static internals and includes zck_private.h",
        "baseline_off_cmd": "meson test -C /repo/_build",
        "source_commits": HOOK_COMMITS,
        "add_only": True,
    },
    "engines": [
        {"name": "pbt-core", "path": "pbt/pbt.hpp", "serves_properties": sorted(CHECKS.keys()),
         "kind_free_text": "choice-sequence property-based testing core (random generation, generic shrinking, replay files, fork isolation with crash/hang attribution); the same properties build as libFuzzer targets (-DPBT_FUZZ)"},
        {"name": "reference-model", "path": "ref/zckref.hpp", "serves_properties": sorted(CHECKS.keys()),
         "kind_free_text": "independent specification-derived codec/parser/decoder/writer/field-level emitter (ref/fields.hpp) used as oracle and to get behind the header checksum gate"},
        {"name": "libfuzzer", "path": "pbt/pbt.hpp", "serves_properties": sorted(k for k, c in CHECKS.items() if any(r.get("kind") == "fuzz" for r in c["runs"])),
         "kind_free_text": "coverage-guided libFuzzer campaigns over the same properties (-DPBT_FUZZ: choices decoded from the fuzzer's bytes, oracle inside the target)"},
        {"name": "hypothesis-tools", "path": "props/C01_tools.py", "serves_properties": sorted(k for k, c in CHECKS.items() if any(r.get("kind") == "script" for r in c["runs"])),
         "kind_free_text": "Hypothesis-driven process-level checks: zck/unzck round trip (props/C01_tools.py), real zckdl against a loopback range server incl. kills (props/C04_zckdl.py), zck read-segmentation independence and split-string locality (props/C16_tools.py)"},
        {"name": "download-scenarios", "path": "gen/dl.hpp", "serves_properties": ["C04", "C05", "C11", "C12", "C17", "C19"],
         "kind_free_text": "in-process range server, response fragmenter and call-for-call mirror of zckdl's update procedure"},
        {"name": "io-fault-injection", "path": "lib/iofault.c", "serves_properties": ["C11", "C12"],
         "kind_free_text": "syscall interposition (-Wl,--wrap=read,write,lseek,ftruncate) for kill-point and fault-point enumeration"},
    ],
    "checks": checks,
    "not_applicable": na,
    "notes": "All checks are property-based tests / fuzzing against explicit oracles; see DESIGN.md. known_findings.txt lists fixed and open findings.",
}
json.dump(m, open(os.path.join(ROOT, "MANIFEST.json"), "w"), indent=1)
print("MANIFEST.json:", len(checks), "checks,", len(na), "not yet claimed")
