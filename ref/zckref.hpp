// Independent reference model of the zchunk format, written from zchunk_format.txt.
// Trusted base: libzstd one-shot (de)compression and OpenSSL EVP one-shot digests.
// Nothing here includes or calls the library under test.
#pragma once
#include <cstdint>
#include <cstring>
#include <string>
#include <vector>
#include <optional>
#include <openssl/evp.h>
#include <zstd.h>

namespace ref {

typedef std::vector<uint8_t> Bytes;
typedef unsigned __int128 u128;

enum HashType { SHA1 = 0, SHA256 = 1, SHA512 = 2, SHA512_128 = 3 };
enum { COMP_NONE = 0, COMP_ZSTD = 2 };

static inline int digest_size(uint64_t type) {
    switch (type) { case SHA1: return 20; case SHA256: return 32; case SHA512: return 64; case SHA512_128: return 16; }
    return -1;
}
static inline Bytes digest(int type, const uint8_t *p, size_t n) {
    const EVP_MD *md = type == SHA1 ? EVP_sha1() : type == SHA256 ? EVP_sha256() : EVP_sha512();
    uint8_t out[EVP_MAX_MD_SIZE]; unsigned len = 0;
    EVP_Digest(p, n, out, &len, md, nullptr);
    return Bytes(out, out + digest_size(type));
}
static inline Bytes digest(int type, const Bytes &b) { return digest(type, b.data(), b.size()); }

// ---- compressed integers -------------------------------------------------------------------
// Encoding: 7 bits per byte, little endian, top bit set on the final byte only.
static inline void ci_put(Bytes &out, uint64_t v) {
    for (;;) { uint8_t b = v & 0x7f; v >>= 7; if (v == 0) { out.push_back(b | 0x80); return; } out.push_back(b); }
}
// non-canonical encoding padded with zero septets to `len` bytes (len >= canonical length)
static inline void ci_put_padded(Bytes &out, uint64_t v, size_t len) {
    Bytes c; ci_put(c, v);
    if (len <= c.size()) { out.insert(out.end(), c.begin(), c.end()); return; }
    c.back() &= 0x7f; while (c.size() < len) c.push_back(0); c.back() |= 0x80;
    out.insert(out.end(), c.begin(), c.end());
}
struct CiResult {
    enum { OK, UNTERMINATED, TOO_LONG, OVERFLOW64 } status; u128 value; size_t length;
};
// Decode from p[0..avail).  Exact arithmetic; "TOO_LONG" = more than 10 bytes.
static inline CiResult ci_get(const uint8_t *p, size_t avail) {
    u128 v = 0; size_t i = 0;
    for (;; i++) {
        if (i >= avail) return {CiResult::UNTERMINATED, 0, i};
        if (i >= 10) return {CiResult::TOO_LONG, 0, i};
        uint8_t b = p[i];
        v += (u128)(b & 0x7f) << (7 * i);
        if (b & 0x80) { i++; break; }
    }
    if (v >> 64) return {CiResult::OVERFLOW64, v, i};
    return {CiResult::OK, v, i};
}

// ---- header model --------------------------------------------------------------------------
struct Entry { Bytes digest, udigest; uint64_t comp_len = 0, len = 0; };
struct OptElem { uint64_t id = 0; Bytes data; };
struct Header {
    bool detached = false;
    uint64_t hash_type = SHA256;
    uint64_t header_length = 0;     // size of preface+index+sigs as stored in the lead
    size_t lead_size = 0;
    Bytes header_digest, data_digest;
    uint64_t flags = 0, comp_type = COMP_ZSTD;
    std::vector<OptElem> opt;
    uint64_t index_size = 0, chunk_hash_type = SHA512_128, count = 0;
    std::vector<Entry> entries;
    uint64_t sig_count = 0;
    size_t total_size = 0;          // lead_size + header_length
    size_t unused_trailing = 0;
    int stage = 0;                  // how far parse() got: 1 lead+checksum, 2 data digest+flags, 3 compression type, 4 optional elements, 5 index size,
                                    // 6 chunk hash type, 7 count, 8 all entries, 9 signature count (fields up to that stage are as read from the bytes)
    // verdicts
    bool checksum_ok = false;
    bool meta_ok = false; std::string meta_reason;    // count == entries, index consumed exactly, no overflow
    std::vector<u128> starts;       // running sums of comp_len (exact)
    u128 data_length = 0;
};

struct ParseResult {
    bool ok = false; std::string reason; Header h;
    bool int_overflow = false;      // failure caused by an integer longer than 10 bytes or >= 2^64
    bool int_unterminated = false;  // failure caused by an integer running off its buffer
};

// Parse lead+header from the beginning of `f`.  `ok` means: structurally parseable, known
// hash/compression types and flags, no streams, no signatures (unsupported by the format's
// only implementation, "Currently there are no recognized signature types"), header checksum
// matches.  Anything the specification leaves open (non-canonical integers, unused trailing
// bytes, count mismatch) is accepted here and reported in the meta verdict instead.
static inline ParseResult parse(const Bytes &f) {
    ParseResult r; Header &h = r.h; size_t n = f.size(); size_t p = 0;
    CiResult c{CiResult::OK, 0, 0};
    auto bad = [&](const char *why) {
        r.ok = false; r.reason = why;
        r.int_overflow = c.status == CiResult::TOO_LONG || c.status == CiResult::OVERFLOW64;
        r.int_unterminated = c.status == CiResult::UNTERMINATED; return r; };
    if (n < 5) return bad("short lead");
    if (memcmp(f.data(), "\0ZCK1", 5) == 0) h.detached = false;
    else if (memcmp(f.data(), "\0ZHR1", 5) == 0) h.detached = true;
    else return bad("bad magic");
    p = 5;
    c = ci_get(f.data() + p, n - p); if (c.status != CiResult::OK) return bad("lead hash type integer");
    h.hash_type = (uint64_t)c.value; p += c.length;
    // overall checksum type: spec lists 0 and 1; the index list (0..3) is what implementations take
    if (digest_size(h.hash_type) < 0) return bad("unknown overall hash type");
    c = ci_get(f.data() + p, n - p); if (c.status != CiResult::OK) return bad("lead header size integer");
    h.header_length = (uint64_t)c.value; p += c.length;
    size_t ds = digest_size(h.hash_type);
    size_t dloc = p;
    if (n - p < ds) return bad("short lead digest");
    h.header_digest.assign(f.begin() + p, f.begin() + p + ds); p += ds;
    h.lead_size = p;
    if (h.header_length > n - p) return bad("header truncated");
    h.total_size = p + h.header_length;
    // checksum: "\0ZCK1" + rest of lead without digest + header
    {
        Bytes m; m.insert(m.end(), {0, 'Z', 'C', 'K', '1'});
        m.insert(m.end(), f.begin() + 5, f.begin() + dloc);
        m.insert(m.end(), f.begin() + h.lead_size, f.begin() + h.total_size);
        h.checksum_ok = digest((int)h.hash_type, m) == h.header_digest;
    }
    if (!h.checksum_ok) return bad("header checksum mismatch");
    h.stage = 1;
    const uint8_t *H = f.data() + h.lead_size; size_t hl = h.header_length; size_t q = 0;
    if (hl - q < ds) return bad("short data digest");
    h.data_digest.assign(H + q, H + q + ds); q += ds;
    c = ci_get(H + q, hl - q); if (c.status != CiResult::OK) return bad("flags integer");
    h.flags = (uint64_t)c.value; q += c.length; h.stage = 2;
    if (h.flags & 1) return bad("streams unsupported");
    if (h.flags & ~(uint64_t)7) return bad("unknown flag");
    c = ci_get(H + q, hl - q); if (c.status != CiResult::OK) return bad("compression type integer");
    h.comp_type = (uint64_t)c.value; q += c.length; h.stage = 3;
    if (h.comp_type != COMP_NONE && h.comp_type != COMP_ZSTD) return bad("unknown compression type");
    if (h.flags & 2) {
        c = ci_get(H + q, hl - q); if (c.status != CiResult::OK) return bad("optional element count");
        uint64_t oc = (uint64_t)c.value; q += c.length;
        for (uint64_t i = 0; i < oc; i++) {
            OptElem e;
            c = ci_get(H + q, hl - q); if (c.status != CiResult::OK) return bad("optional element id");
            e.id = (uint64_t)c.value; q += c.length;
            c = ci_get(H + q, hl - q); if (c.status != CiResult::OK) return bad("optional element size");
            uint64_t dsz = (uint64_t)c.value; q += c.length;
            if (dsz > hl - q) return bad("optional element data past end of header");
            e.data.assign(H + q, H + q + dsz); q += dsz;
            h.opt.push_back(e);
        }
    }
    h.stage = 4;
    c = ci_get(H + q, hl - q); if (c.status != CiResult::OK) return bad("index size integer");
    h.index_size = (uint64_t)c.value; q += c.length; h.stage = 5;
    if (h.index_size > hl - q) return bad("index past end of header");
    size_t istart = q, iend = q + h.index_size;
    c = ci_get(H + q, iend - q); if (c.status != CiResult::OK) return bad("chunk hash type integer");
    h.chunk_hash_type = (uint64_t)c.value; q += c.length; h.stage = 6;
    if (digest_size(h.chunk_hash_type) < 0) return bad("unknown chunk hash type");
    size_t cds = digest_size(h.chunk_hash_type);
    c = ci_get(H + q, iend - q); if (c.status != CiResult::OK) return bad("chunk count integer");
    h.count = (uint64_t)c.value; q += c.length; h.stage = 7;
    u128 run = 0; bool overflow = false;
    while (q < iend) {
        Entry e;
        if (iend - q < cds) return bad("index entry digest truncated");
        e.digest.assign(H + q, H + q + cds); q += cds;
        if (h.flags & 4) {
            if (iend - q < cds) return bad("index entry uncompressed digest truncated");
            e.udigest.assign(H + q, H + q + cds); q += cds;
        }
        c = ci_get(H + q, iend - q); if (c.status != CiResult::OK) return bad("index entry stored length");
        e.comp_len = (uint64_t)c.value; q += c.length;
        c = ci_get(H + q, iend - q); if (c.status != CiResult::OK) return bad("index entry length");
        e.len = (uint64_t)c.value; q += c.length;
        h.starts.push_back(run); run += e.comp_len; if (run >> 63) overflow = true;
        h.entries.push_back(e);
    }
    (void)istart;
    h.data_length = run; h.stage = 8;
    c = ci_get(H + q, hl - q); if (c.status != CiResult::OK) return bad("signature count integer");
    h.sig_count = (uint64_t)c.value; q += c.length; h.stage = 9;
    if (h.sig_count > 0) return bad("signatures unsupported");
    h.unused_trailing = hl - q;
    h.meta_ok = true;
    if (h.count != h.entries.size()) { h.meta_ok = false; h.meta_reason = "chunk count != number of index entries"; }
    else if (h.entries.empty()) { h.meta_ok = false; h.meta_reason = "no dictionary entry"; }
    else if (overflow || ((u128)h.total_size + run) >> 63) { h.meta_ok = false; h.meta_reason = "offsets overflow"; }
    r.ok = true; return r;
}

// ---- body decoding (content verdict) -------------------------------------------------------
struct Decoded { bool ok = false; std::string reason; Bytes content; Bytes dict; };

static inline bool zstd_dec(const uint8_t *src, size_t n, const Bytes *dict, uint64_t declared, Bytes &out, std::string &why) {
    // decompress allowing for a frame that decodes to something other than `declared`
    unsigned long long fcs = ZSTD_getFrameContentSize(src, n);
    size_t cap = declared;
    if (fcs != ZSTD_CONTENTSIZE_UNKNOWN && fcs != ZSTD_CONTENTSIZE_ERROR && fcs < (1ull << 31)) cap = std::max<size_t>(cap, fcs);
    if (cap > (1ull << 31)) { why = "declared size too large for the reference"; return false; }
    out.resize(cap ? cap : 1);
    ZSTD_DCtx *d = ZSTD_createDCtx(); size_t rv;
    if (dict && !dict->empty()) rv = ZSTD_decompress_usingDict(d, out.data(), cap, src, n, dict->data(), dict->size());
    else rv = ZSTD_decompressDCtx(d, out.data(), cap, src, n);
    ZSTD_freeDCtx(d);
    if (ZSTD_isError(rv)) { why = std::string("zstd: ") + ZSTD_getErrorName(rv); return false; }
    out.resize(rv);
    if (rv != declared) { why = "decoded size != declared size"; return false; }
    return true;
}

// Content verdict for a full (non-detached) file: every chunk digest, whole-data digest
// (unless flag 2), decoded size == declared size, file long enough.  Trailing bytes after the
// last chunk are not covered by any checksum and are ignored, as the format describes no
// end-of-file marker.
static inline Decoded decode(const Bytes &f, const Header &h) {
    Decoded d; auto bad = [&](const std::string &why) { d.ok = false; d.reason = why; return d; };
    if (h.detached) return bad("detached header has no body");
    if (h.entries.empty()) return bad("no index entries");
    size_t off = h.total_size; Bytes alldata;
    for (size_t i = 0; i < h.entries.size(); i++) {
        const Entry &e = h.entries[i];
        if (e.comp_len > f.size() - off) return bad("chunk " + std::to_string(i) + " extends past end of file");
        const uint8_t *p = f.data() + off; size_t n = e.comp_len;
        bool zero_len = n == 0;
        if (!(i == 0 && e.len == 0 && zero_len)) {
            Bytes dg = zero_len ? Bytes(digest_size(h.chunk_hash_type), 0) : digest((int)h.chunk_hash_type, p, n);
            if (dg != e.digest) return bad("chunk " + std::to_string(i) + " digest mismatch");
        }
        Bytes out; std::string why;
        if (h.comp_type == COMP_NONE) {
            if (e.len != e.comp_len) return bad("chunk " + std::to_string(i) + " declared size != stored size (no compression)");
            out.assign(p, p + n);
        } else if (zero_len) {
            if (e.len != 0) return bad("chunk " + std::to_string(i) + " empty stored data but non-zero declared size");
        } else {
            if (!zstd_dec(p, n, i == 0 ? nullptr : &d.dict, e.len, out, why)) return bad("chunk " + std::to_string(i) + ": " + why);
        }
        if (i == 0) d.dict = out; else d.content.insert(d.content.end(), out.begin(), out.end());
        off += n;
    }
    if (!(h.flags & 4)) {
        Bytes dg = digest((int)h.hash_type, f.data() + h.total_size, off - h.total_size);
        if (dg != h.data_digest) return bad("data digest mismatch");
    }
    d.ok = true; return d;
}

// ---- emitter / writer ----------------------------------------------------------------------
struct EmitOpts {
    size_t pad_hash_type = 0, pad_header_len = 0, pad_flags = 0, pad_comp = 0, pad_index_size = 0,
           pad_chunk_hash = 0, pad_count = 0, pad_sig = 0;     // 0 = canonical, else encoded length
    size_t pad_lens = 0;                                        // applied to every entry length
    Bytes trailing;                                             // unused bytes after the signature count
    std::optional<uint64_t> count_override, index_size_override, header_len_override;
    bool bad_checksum = false;
    std::optional<Bytes> stored_digest;                         // store this digest instead of the computed one (header NOT re-sealed)
};

// Build lead+preface+index+sigs from the fields of `h` (digests as given) and seal the header
// checksum.  h.detached selects the magic.
static inline Bytes emit_header(const Header &h, const EmitOpts &o = EmitOpts()) {
    Bytes index;
    ci_put_padded(index, h.chunk_hash_type, o.pad_chunk_hash);
    ci_put_padded(index, o.count_override ? *o.count_override : h.count, o.pad_count);
    for (auto &e : h.entries) {
        index.insert(index.end(), e.digest.begin(), e.digest.end());
        if (h.flags & 4) index.insert(index.end(), e.udigest.begin(), e.udigest.end());
        ci_put_padded(index, e.comp_len, o.pad_lens); ci_put_padded(index, e.len, o.pad_lens);
    }
    Bytes pre;
    pre.insert(pre.end(), h.data_digest.begin(), h.data_digest.end());
    ci_put_padded(pre, h.flags, o.pad_flags);
    ci_put_padded(pre, h.comp_type, o.pad_comp);
    if (h.flags & 2) {
        ci_put(pre, h.opt.size());
        for (auto &e : h.opt) { ci_put(pre, e.id); ci_put(pre, e.data.size()); pre.insert(pre.end(), e.data.begin(), e.data.end()); }
    }
    ci_put_padded(pre, o.index_size_override ? *o.index_size_override : index.size(), o.pad_index_size);
    Bytes sig; ci_put_padded(sig, h.sig_count, o.pad_sig);
    Bytes rest = pre; rest.insert(rest.end(), index.begin(), index.end()); rest.insert(rest.end(), sig.begin(), sig.end());
    rest.insert(rest.end(), o.trailing.begin(), o.trailing.end());
    Bytes lead; lead.insert(lead.end(), {0, 'Z', 'C', 'K', '1'});
    ci_put_padded(lead, h.hash_type, o.pad_hash_type);
    ci_put_padded(lead, o.header_len_override ? *o.header_len_override : rest.size(), o.pad_header_len);
    Bytes m = lead; m.insert(m.end(), rest.begin(), rest.end());
    Bytes dg = digest((int)h.hash_type, m);
    if (o.bad_checksum) dg[0] ^= 1;
    if (o.stored_digest && o.stored_digest->size() == dg.size()) dg = *o.stored_digest;
    Bytes out = lead; if (h.detached) memcpy(out.data(), "\0ZHR1", 5);
    out.insert(out.end(), dg.begin(), dg.end());
    out.insert(out.end(), rest.begin(), rest.end());
    return out;
}

// Re-seal: recompute the header checksum of a (possibly edited) header image in place.
// `f` must start with a structurally intact lead.  Returns false if the lead cannot be read.
static inline bool reseal(Bytes &f) {
    if (f.size() < 7) return false;
    size_t p = 5; CiResult c = ci_get(f.data() + p, f.size() - p); if (c.status != CiResult::OK) return false;
    int ds = digest_size((uint64_t)c.value); if (ds < 0) return false; int ht = (int)c.value; p += c.length;
    c = ci_get(f.data() + p, f.size() - p); if (c.status != CiResult::OK) return false;
    uint64_t hl = (uint64_t)c.value; p += c.length;
    if (f.size() - p < (size_t)ds || f.size() - p - ds < hl) return false;
    Bytes m; m.insert(m.end(), {0, 'Z', 'C', 'K', '1'}); m.insert(m.end(), f.begin() + 5, f.begin() + p);
    m.insert(m.end(), f.begin() + p + ds, f.begin() + p + ds + hl);
    Bytes dg = digest(ht, m); memcpy(f.data() + p, dg.data(), ds); return true;
}

struct WriteSpec {
    int comp = COMP_ZSTD; int level = 3;
    int hash_type = SHA256, chunk_hash_type = SHA512_128;
    bool uncomp_flag = false;
    Bytes dict;
    std::vector<Bytes> chunks;      // uncompressed data chunks (dictionary excluded)
    std::vector<OptElem> opt;
    bool no_content_size = false;   // zstd only: frames without the content-size field
    bool store_empty = false;       // zstd only: an empty data chunk is stored as the (9-13 byte) zstd frame of no data instead of as nothing
};
struct Written { Bytes file; Header h; std::vector<Bytes> stored; };   // stored[0] = dict

static inline Bytes zstd_comp(const Bytes &src, const Bytes *dict, int level, bool no_content_size = false) {
    Bytes out(ZSTD_compressBound(src.size()));
    ZSTD_CCtx *c = ZSTD_createCCtx(); size_t rv;
    if (no_content_size) {      // a frame whose header does not say how much it decodes to (what a streaming compressor writes)
        ZSTD_CCtx_setParameter(c, ZSTD_c_compressionLevel, level); ZSTD_CCtx_setParameter(c, ZSTD_c_contentSizeFlag, 0);
        bool dict_ok = true; if (dict && !dict->empty() && ZSTD_isError(ZSTD_CCtx_loadDictionary(c, dict->data(), dict->size()))) { dict_ok = false; ZSTD_CCtx_loadDictionary(c, nullptr, 0); }
        (void)dict_ok; rv = ZSTD_compress2(c, out.data(), out.size(), src.data(), src.size());
        ZSTD_freeCCtx(c); out.resize(ZSTD_isError(rv) ? 0 : rv); return out;
    }
    if (dict && !dict->empty()) rv = ZSTD_compress_usingDict(c, out.data(), out.size(), src.data(), src.size(), dict->data(), dict->size(), level);
    else rv = ZSTD_compressCCtx(c, out.data(), out.size(), src.data(), src.size(), level);
    // a "dictionary" that zstd refuses to load (dictionary magic followed by garbage): store the chunk compressed without it
    if (ZSTD_isError(rv) && dict && !dict->empty()) rv = ZSTD_compressCCtx(c, out.data(), out.size(), src.data(), src.size(), level);
    ZSTD_freeCCtx(c); out.resize(ZSTD_isError(rv) ? 0 : rv); return out;
}

// Specification-level writer, independent of the library's.
static inline Written write(const WriteSpec &w, const EmitOpts &o = EmitOpts()) {
    Written r; Header &h = r.h;
    h.hash_type = w.hash_type; h.chunk_hash_type = w.chunk_hash_type; h.comp_type = w.comp;
    h.flags = (w.uncomp_flag ? 4 : 0) | (w.opt.empty() ? 0 : 2); h.opt = w.opt;
    int cds = digest_size(w.chunk_hash_type);
    auto add = [&](const Bytes &plain, bool is_dict) {
        Entry e; Bytes st;
        if (plain.empty() && w.store_empty && !is_dict && w.comp != COMP_NONE) { st = zstd_comp(plain, &w.dict, w.level, w.no_content_size); e.digest = digest(w.chunk_hash_type, st); e.udigest = digest(w.chunk_hash_type, plain); }
        else if (plain.empty()) { st.clear(); e.digest.assign(cds, 0); e.udigest.assign(cds, 0); }
        else {
            st = w.comp == COMP_NONE ? plain : zstd_comp(plain, is_dict ? nullptr : &w.dict, w.level, w.no_content_size);
            e.digest = digest(w.chunk_hash_type, st); e.udigest = digest(w.chunk_hash_type, plain);
        }
        e.comp_len = st.size(); e.len = plain.size();
        h.entries.push_back(e); r.stored.push_back(st);
    };
    add(w.dict, true);
    for (auto &c : w.chunks) add(c, false);
    h.count = h.entries.size();
    Bytes body; for (auto &s : r.stored) body.insert(body.end(), s.begin(), s.end());
    h.data_digest = w.uncomp_flag ? Bytes(digest_size(w.hash_type), 0) : digest(w.hash_type, body);
    r.file = emit_header(h, o);
    h.total_size = r.file.size();
    r.file.insert(r.file.end(), body.begin(), body.end());
    return r;
}

} // namespace ref
