// Field-level header construction for structure-aware mutation (C02, C03, C13).
// A header is a list of fields in file order; integers carry an exact value (up to 2^77), an
// encoded length, or a raw byte override (unterminated / over-long encodings).  emit() lays the
// fields out, fills in the automatic size fields unless overridden, and seals the checksum.
// Nothing here touches the library under test.
#pragma once
#include "ref/zckref.hpp"

namespace ref {

struct Fld {
    enum Kind { INT, BLOB } kind = INT;
    std::string name;
    u128 v = 0; size_t pad = 0;          // INT: value and encoded length (0 = canonical)
    bool raw_set = false; Bytes raw;     // INT: literal bytes instead of an encoding
    Bytes blob;                          // BLOB
    bool autoval = false;                // INT whose value is computed by emit() (sizes)
    int64_t adj = 0;                     // added to the automatic value
    int section = 0;                     // 0 lead, 1 preface, 2 index, 3 sig/trailing
};

// encode any value < 2^77 in `len` bytes (0 = canonical); 11 bytes are possible (over-long)
static inline void ci_put_wide(Bytes &out, u128 v, size_t len) {
    Bytes c;
    for (;;) { uint8_t b = (uint8_t)(v & 0x7f); v >>= 7; c.push_back(b); if (v == 0) break; }
    while (c.size() < len) c.push_back(0);
    c.back() |= 0x80;
    out.insert(out.end(), c.begin(), c.end());
}

struct Fields {
    std::vector<Fld> f;
    bool detached = false; bool bad_checksum = false;
    int find(const std::string &n) const { for (size_t i = 0; i < f.size(); i++) if (f[i].name == n) return (int)i; return -1; }
    Fld &get(const std::string &n) { return f[find(n)]; }
};

static inline Fld fint(const std::string &n, u128 v, int section, bool autoval = false) { Fld x; x.kind = Fld::INT; x.name = n; x.v = v; x.section = section; x.autoval = autoval; return x; }
static inline Fld fblob(const std::string &n, const Bytes &b, int section) { Fld x; x.kind = Fld::BLOB; x.name = n; x.blob = b; x.section = section; return x; }

static inline Fields fields_from(const Header &h) {
    Fields F; F.detached = h.detached;
    F.f.push_back(fint("hash_type", h.hash_type, 0));
    F.f.push_back(fint("header_len", 0, 0, true));
    F.f.push_back(fblob("data_digest", h.data_digest, 1));
    F.f.push_back(fint("flags", h.flags, 1));
    F.f.push_back(fint("comp_type", h.comp_type, 1));
    if (h.flags & 2) {
        F.f.push_back(fint("opt_count", h.opt.size(), 1));
        for (size_t i = 0; i < h.opt.size(); i++) {
            F.f.push_back(fint("opt" + std::to_string(i) + ".id", h.opt[i].id, 1));
            F.f.push_back(fint("opt" + std::to_string(i) + ".size", h.opt[i].data.size(), 1));
            F.f.push_back(fblob("opt" + std::to_string(i) + ".data", h.opt[i].data, 1));
        }
    }
    F.f.push_back(fint("index_size", 0, 1, true));
    F.f.push_back(fint("chunk_hash_type", h.chunk_hash_type, 2));
    F.f.push_back(fint("count", h.count, 2));
    for (size_t i = 0; i < h.entries.size(); i++) {
        std::string p = "e" + std::to_string(i) + ".";
        F.f.push_back(fblob(p + "digest", h.entries[i].digest, 2));
        if (h.flags & 4) F.f.push_back(fblob(p + "udigest", h.entries[i].udigest, 2));
        F.f.push_back(fint(p + "comp_len", h.entries[i].comp_len, 2));
        F.f.push_back(fint(p + "len", h.entries[i].len, 2));
    }
    F.f.push_back(fint("sig_count", h.sig_count, 3));
    return F;
}

static inline void put_field(Bytes &out, const Fld &x) {
    if (x.kind == Fld::BLOB) { out.insert(out.end(), x.blob.begin(), x.blob.end()); return; }
    if (x.raw_set) { out.insert(out.end(), x.raw.begin(), x.raw.end()); return; }
    ci_put_wide(out, x.v, x.pad);
}

// Lay out and seal.  The lead's digest is computed with the hash type given by the hash_type
// field when that is a known type (else SHA-256 sized garbage is stored).
static inline Bytes emit(const Fields &F0) {
    Fields F = F0;
    Bytes index, sig; for (auto &x : F.f) { if (x.section == 2) put_field(index, x); if (x.section == 3) put_field(sig, x); }
    { Fld &is = F.get("index_size"); if (is.autoval) is.v = (u128)(uint64_t)((int64_t)index.size() + is.adj); }
    Bytes pre; for (auto &x : F.f) if (x.section == 1) put_field(pre, x);
    Bytes rest = pre; rest.insert(rest.end(), index.begin(), index.end()); rest.insert(rest.end(), sig.begin(), sig.end());
    { Fld &hl = F.get("header_len"); if (hl.autoval) hl.v = (u128)(uint64_t)((int64_t)rest.size() + hl.adj); }
    Bytes lead = {0, 'Z', 'C', 'K', '1'};
    put_field(lead, F.get("hash_type")); put_field(lead, F.get("header_len"));
    const Fld &ht = F.get("hash_type"); int type = (!ht.raw_set && ht.v <= 3) ? (int)ht.v : SHA256;
    Bytes m = lead; m.insert(m.end(), rest.begin(), rest.end());
    Bytes dg = digest(type, m); if (F.bad_checksum) dg[0] ^= 1;
    Bytes out = lead; if (F.detached) memcpy(out.data(), "\0ZHR1", 5);
    out.insert(out.end(), dg.begin(), dg.end()); out.insert(out.end(), rest.begin(), rest.end());
    return out;
}

} // namespace ref
