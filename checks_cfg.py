"""Per-property run configuration for ./check.  Case counts are what bounds a run (never a
per-case time limit); the `timeout` values only mark a run as inconclusive."""

def P(q, t):
    return {"quick": q, "thorough": t}

CHECKS = {}
NOT_APPLICABLE = {}
HOOK_COMMITS = []

CHECKS["C20"] = {
    "level": "exploration",
    "technique": "exhaustive enumeration of the listed sub-domains plus random generation, differential against an exact 128-bit reference codec, guard-page oracle for over-reads",
    "level_text": "Every value/byte string of the listed finite sub-domains is enumerated completely (round trip of [0,2^21) and all 2^k, 2^k+/-1; decode of all strings of length <= 3 at offsets 0..3; length 8..11 strings over the last three positions) and compared with an exact reference decoder, each input flush against an inaccessible page; random generation covers longer/odd strings. Exploration, not proof: strings outside the enumerated families are sampled.",
    "level_note": "Trusted: the reference codec in ref/zckref.hpp (written from zchunk_format.txt) and the library's calling convention compint == base + *length, max_length == total size, taken from every in-tree caller.",
    "rule": "generated: encode/decode round trips (value classes: < 2^21, 2^k and 2^k+/-1, near INT_MAX, near 2^64, random 64-bit) and decodes of byte strings "
            "(length 0..13, biased to continuation bytes, offsets 0..4, both destination types) flush against a PROT_NONE page; enumerated: see exhaustive_subdomains. "
            "Non-trivial = multi-byte encoding or any input the exact decoder rejects; distinct by hash of the choice sequence (enumerated cases are distinct by construction).",
    "assumptions": ["reference codec ref::ci_get/ci_put (exact 128-bit arithmetic) is correct", "library calling convention: compint == base + *length, max_length == total buffer size"],
    "runs": [
        {"bin": "plain/C20", "cases": P(200000, 3000000), "procs": P(4, 16), "enum": True, "enum_all_procs": True, "args": ["--no-fork"]},
        {"bin": "asan/C20", "cases": P(100000, 1000000), "procs": P(2, 4), "args": ["--no-fork"]},
    ],
}

CHECKS["C01"] = {
    "level": "exploration",
    "technique": "random generation of (content, writer configuration, write/end-chunk history, read history, closed descriptors); round trip through the library plus independent reference decoder; CPU-time bound for termination",
    "level_text": "Generated writer configurations/histories are run through the real writer in an isolated child; a successful close must yield a file that an independent specification-derived decoder accepts and decodes to exactly the input, and that the library validates and reads back under the generated read history. Sampled, not exhaustive: inputs up to a few MiB, thousands of cases per run.",
    "level_note": "Trusted: reference decoder (ref/zckref.hpp), libzstd and OpenSSL one-shot functions. A refused configuration or a failing close is outside the property (counted in evidence).",
    "rule": "case = (content kind/length/seed, writer configuration with legal setter order, write(n)/end_chunk history, cyclic read sizes, descriptors 0-2 closed before init). Non-trivial = >= 2 data chunks, or chunk max/dictionary/uncompressed-source flag set, or descriptors closed; distinct by hash of the choice sequence.",
    "assumptions": ["reference decoder is correct", "a configuration refused by a setter and a failing zck_close are outside the property's premise"],
    "runs": [
        {"bin": "asan/C01", "cases": P(260, 2500), "procs": P(8, 16), "size": P(60, 100), "cpu_limit": 120, "shrink_budget": 150},
        {"kind": "script", "bin": "props/C01_tools.py", "cases": P(70, 1500), "procs": P(6, 16)},
    ],
    "extra_targets": ["asan/tools/zck", "asan/tools/unzck", "asan/tools/zck_read_header"],
}

CHECKS["C06"] = {
    "level": "exploration",
    "technique": "per generated sample: exhaustive single-byte substitution over the whole header region (every position x 255 values) plus insert/delete with adjusted size field; oracle = reference-computed header checksum",
    "level_text": "For each generated valid sample (library- and reference-written, every overall hash type, flag 2, optional elements, dictionary, 0..12 chunks, full and detached) the substitution space position x value is enumerated completely and every mutant whose reference-computed checksum no longer matches must fail to open; the magic switch alone must still open. Exhaustive per sample, samples themselves are generated.",
    "level_note": "Trusted: reference header parser/checksum (ref/zckref.hpp, OpenSSL one-shot digests). Hash collisions are ignored.",
    "rule": "sample = (writer, hash types, flags, dictionary, chunk count, detached?); for each sample all header positions x all 255 other byte values, inserts (5 values per position) and deletes. Every mutant is non-trivial (it changes a header byte); distinct = (sample, position, value) by construction, samples distinct by choice-sequence hash.",
    "assumptions": ["no SHA collisions", "the unmutated sample must open (otherwise the sample is skipped and counted under sample-not-opened)"],
    "runs": [
        {"bin": "asan/C06", "cases": P(10, 60), "procs": P(8, 16), "size": 60, "shrink_budget": 40},
    ],
}

CHECKS["C07"] = {
    "level": "exploration",
    "technique": "model-based random pin tuples (type, digest string, length, setter order, lead-only validation) plus exhaustive byte x position enumeration of the digest string; oracle = explicit acceptance model over reference-parsed header",
    "level_text": "An explicit model decides for every generated (pinned type, digest string, length, order) tuple whether the setters and the lead must be accepted; the library must agree, and an accepted lead must be followed by a successful full open reporting the pinned values. For sampled files every byte value at every position of the digest string is enumerated completely.",
    "level_note": "Trusted: reference lead parser; the acceptance model is the property statement (hex digits either case, exact length, compared by value).",
    "rule": "case = sample file (overall hash type, detached?) + pin tuple; exhaustive inner loop: digest string position x 256 byte values. Non-trivial = at least one pin set; distinct by choice-sequence hash (+ position x value by construction).",
    "assumptions": ["setters are called before the lead is read, type before digest unless the case says otherwise"],
    "runs": [
        {"bin": "asan/C07", "cases": P(400, 3000), "procs": P(8, 16), "size": 60, "shrink_budget": 200},
    ],
}

CHECKS["C14"] = {
    "level": "exploration",
    "technique": "model-based request sequences over (chunk, data|stored) on generated files; exhaustive enumeration of all sequences of length <= 3 for small files; oracle = chunk table of the generated file (plain slices, file extents, reference digests) checked after every request",
    "level_text": "Generated valid files with a known chunk table (none/zstd, with/without dictionary, duplicate and 1-byte chunks, library- and reference-written). For a third of the files every request sequence of length <= 3 over all (chunk, kind) pairs is run on a fresh context; the others get random sequences of up to 40 (thorough 60) requests biased to the last chunk, the dictionary and repeats. Every answer is compared with the model, so history dependence shows as a mismatch. Exhaustive per small file, sampled otherwise.",
    "level_note": "Trusted: the chunk table comes from the generator (plain chunks) and the reference parser (extents, digests). dst_size equals the declared/stored size, as every in-tree caller does.",
    "rule": "case = (file: compression, dictionary, hash types, chunk sizes, writer) + request sequence. Non-trivial = sequence of length >= 2 containing a request after the last chunk's data was requested or a repeated chunk; exhaustive files: every enumerated sequence on a file with >= 1 data chunk counts (distinct by construction). Distinct by choice-sequence hash.",
    "assumptions": ["dst_size == declared (data) / stored (stored data) size, as in unzck, zck_gen_zdict and the tests", "no streaming zck_read is mixed into the request history"],
    "runs": [
        {"bin": "asan/C14", "cases": P(500, 1800), "procs": P(8, 16), "size": 70, "shrink_budget": 300},
    ],
    "extra_targets": ["asan/tools/unzck"],
}

CHECKS["C15"] = {
    "level": "exploration",
    "technique": "per generated zstd file: exhaustive single-bit flips over every stored byte of a chosen chunk (plus index-digest alteration with re-sealed header), classified by a reference zstd decode; oracle = bytes released by successful zck_read calls are a prefix of the content preceding the bad chunk, an error is reported, nothing of the bad chunk is released later",
    "level_text": "For each generated zstd file (2..6 chunks, with/without dictionary, bad chunk = dictionary/first/middle/last, read sizes below/at/above the chunk size) every single-bit corruption of the chosen chunk's stored bytes is enumerated; the oracle attributes every released byte to a chunk through the generator's chunk table. Exhaustive per (file, chunk); files and read histories are sampled.",
    "level_note": "Trusted: generator's chunk table, libzstd for the 'still decodes' classification only (not for the verdict). SHA collisions ignored. A read returning bytes shorter than 4 after the error is not attributed.",
    "rule": "case = (file, bad chunk, cyclic read sizes) x every bit of the chunk's stored bytes. Non-trivial = the flipped chunk still decodes under zstd AND some read size is smaller than the chunk's uncompressed size (the situation in which unverified data could be handed out piecemeal); distinct = (case, byte, bit) by construction.",
    "assumptions": ["any bit flip changes the chunk digest (no collisions)"],
    "runs": [
        {"bin": "asan/C15", "cases": P(120, 600), "procs": P(8, 16), "size": 70, "shrink_budget": 60},
    ],
}

CHECKS["C16"] = {
    "level": "exploration",
    "technique": "metamorphic relations over generated (content, configuration, two write segmentations, edit): identical output across segmentations and repeated runs; prefix/suffix chunk identity between original and edited content; automatic chunk sizes within the effective bounds; tool level (Hypothesis): zck on a regular file vs the same content through a FIFO in generated read segmentations gives identical archives, and P1+S / P2+S with S starting at the split string share all chunks from S on",
    "level_text": "Generated contents up to 1 MiB (thorough 3 MiB) with several automatic boundaries (hash-triggered on random data, max-triggered on low-entropy data), none/zstd, optional dictionary, manual and automatic chunking with generated min/max, two independent write segmentations (one big write, tiny writes, block-edge sizes, random cuts) and an insert/delete/replace edit at the start, middle or end. Four relations are asserted per case. Sampled; no enumeration.",
    "level_note": "Trusted: reference header parser for the chunk tables. Effective bounds mirror the documented rule avg/4..avg*4 clamped by the configured min/max (avg = 32 KiB), with the configured limits winning when they conflict.",
    "rule": "case = (content kind/length/seed, configuration, end_chunk offsets, two write-cut lists, edit). Non-trivial = >= 3 data chunks, at least one chunk asserted identical across the original/edited pair (prefix or suffix), and the two write histories differ. Distinct by choice-sequence hash.",
    "assumptions": ["in manual mode both histories call end_chunk at the same content offsets", "bounds relation only for automatic mode without explicit end_chunk calls"],
    "runs": [
        {"bin": "asan/C16", "cases": P(400, 1800), "procs": P(8, 16), "size": P(60, 100), "shrink_budget": 80},
        {"kind": "script", "bin": "props/C16_tools.py", "cases": P(120, 700), "procs": P(4, 16)},
    ],
    "extra_targets": ["asan/tools/zck", "asan/tools/zck_read_header"],
}

CHECKS["C13"] = {
    "level": "exploration",
    "technique": "structure-aware generation: reference-emitted headers with field-level mutations (boundary integers, 1..11-byte and raw encodings, count/entry mismatches), always re-sealed; differential comparison of every public getter and the chunk iteration against an independent specification-derived parser",
    "level_text": "Thousands of generated headers per run get behind the header-checksum gate by construction (the emitter seals every image). Whenever the library opens one, every getter and the whole chunk iteration are compared with the independent parse, and integer fields that are over-long, >= 2^64 or do not fit an int-sized destination must have caused rejection. For a share of the opened headers the text printed by the ASan build of `zck_read_header -c` is parsed and compared with the same reference parse. Sampled; the integer boundary values are drawn from an explicit list (2^7k, 2^31, 2^32, 2^63, 2^64 +-1, 2^70).",
    "level_note": "Trusted: ref/zckref.hpp parser and ref/fields.hpp emitter (written from zchunk_format.txt). A getter returning its error value (< 0) for a quantity >= 2^63 counts as rejection. Headers the reference rejects for structural reasons other than integer fitting are not compared (labelled).",
    "rule": "case = generated header fields (hash types, flags, optional elements, 0..60 entries, sizes up to 2^64) + 0..3 field mutations + optional body bytes. Non-trivial = the library opened the header, the reference parsed it, and it has >= 2 index entries or at least one mutation. Distinct by choice-sequence hash.",
    "assumptions": ["reference parser is correct", "a header both accepted by the reference and refused by the library is not a violation (counted as over-strict-refusal)"],
    "runs": [
        {"bin": "asan/C13", "cases": P(50000, 400000), "procs": P(8, 16), "size": 70, "shrink_budget": 300},
    ],
    "extra_targets": ["asan/tools/zck_read_header"],
}

TOOLS = ["asan/tools/zck", "asan/tools/unzck", "asan/tools/zck_read_header", "asan/tools/zck_delta_size", "asan/tools/zck_gen_zdict", "asan/tools/zckdl"]

CHECKS["C03"] = {
    "level": "exploration",
    "technique": "structure-aware fuzzing: generated header fields always sealed with a correct checksum (so parsing proceeds past the gate) + valid files with field/raw mutations + noise, driven through generated scripts of public API calls (and the ASan-built tools) in forked children under ASan/UBSan with a CPU-time limit; the same property builds as a coverage-guided libFuzzer target",
    "level_text": "Every case runs in an isolated child under AddressSanitizer and UndefinedBehaviorSanitizer with a CPU-time bound; a report, signal or overrun is attributed to the exact case, confirmed by re-runs and shrunk. The generator seals every synthetic header, so the large majority of inputs exercise the parsers and everything behind them rather than dying at the checksum gate. Fuzzing never shows absence: evidence reports executions and the fraction past the gate.",
    "level_note": "Leaks are out of scope (detect_leaks=0). Allocation failure is allowed (allocator_may_return_null=1, single allocations > 256 MiB fail). The harness itself does not materialise buffers for declared sizes above 64 MiB. zck_get_range_char on an empty request is exercised under C10, not here.",
    "rule": "case = (input mode sealed/derived/raw/noise, field list + mutations, body, second file, API script, optional tool). Non-trivial = the reference confirms the header checksum of the input matches, i.e. the library's parsers were reached; distinct by hash of the input bytes.",
    "assumptions": ["sanitizer-clean execution of a case stands for memory safety of that case", "CPU limit 40 s per case is far above the < 50 ms a normal case takes"],
    "extra_targets": TOOLS,
    "env": {"ASAN_OPTIONS_EXTRA": "max_allocation_size_mb=256"},
    "runs": [
        {"bin": "asan/C03", "cases": P(6000, 60000), "procs": P(8, 16), "size": 70, "cpu_limit": 40, "shrink_budget": 250},
        {"kind": "fuzz", "bin": "asan/fuzz_C03", "cases": P(40000, 400000), "procs": P(4, 16), "max_len": 6000},
    ],
}

CHECKS["C02"] = {
    "level": "exploration",
    "technique": "mutation-based generation (raw and structure-aware with re-sealed header, optionally recomputed data checksum) of valid files; differential oracle against an independent specification-derived decoder: success of open+read+close implies content == reference decoding, or == original content when the reference rejects; same for unzck; also a libFuzzer campaign over the same property",
    "level_text": "Each case alters a generated valid file and reads it through the library under a generated read-size history (and through unzck for a share of cases). The implication 'all calls succeed => returned bytes equal the reference decoding (or the original content)' is checked; about half the alterations are structural and re-sealed, so they get behind the header checksum gate. Sampled.",
    "level_note": "Trusted: reference parser/decoder, libzstd, OpenSSL one-shot digests. When the reference rejects the altered file the library may still succeed as long as it returns the original content, so reference strictness cannot raise an alarm. Hash collisions ignored.",
    "rule": "case = (valid file, 1-2 alterations, cyclic read sizes). Non-trivial = altered bytes differ from the original and the library got past the lead/header (open succeeded); distinct by hash of the altered bytes. The histogram reports the share past the header checksum gate.",
    "assumptions": ["reference decoder is correct", "no hash collisions"],
    "extra_targets": TOOLS,
    "runs": [
        {"bin": "asan/C02", "cases": P(5000, 80000), "procs": P(8, 16), "size": 70, "cpu_limit": 60, "shrink_budget": 300},
        {"kind": "fuzz", "bin": "asan/fuzz_C02", "cases": P(30000, 400000), "procs": P(4, 16), "max_len": 6000},
    ],
}

CHECKS["C09"] = {
    "level": "exploration",
    "technique": "model-based: generated on-disk damage states of valid files (per-chunk intact/zeroed/garbage/partial/bit-flip, truncation incl. exactly between identical chunks, over-length, wrong data checksum, detached header) x generated sequences of the three validators followed by a full read; oracle = reference recomputation of every chunk digest over the bytes actually present, file snapshot, and a fresh-context baseline read",
    "level_text": "For every generated state the expected per-chunk verdict vector and the overall verdict are recomputed independently from the bytes on disk; the library's flags and return codes must equal them after every scan in the sequence, the file must be byte-identical afterwards, and the subsequent read must behave exactly like a read on a fresh context. Sampled states and sequences.",
    "level_note": "Trusted: reference digests (OpenSSL one-shot) and the generator's chunk table. For 'not valid' both -1 and 0 are accepted as return codes; only an unjustified 1 (or a missing 1) is a violation.",
    "rule": "case = (file, damage per chunk, length change, detached?, wrong data digest?, validator sequence, read sizes). Non-trivial = at least one intact and one damaged chunk, or a truncation inside a chunk; distinct by choice-sequence hash.",
    "assumptions": ["no hash collisions"],
    "runs": [
        {"bin": "asan/C09", "cases": P(6000, 25000), "procs": P(8, 16), "size": 70, "shrink_budget": 300},
    ],
    "extra_targets": ["asan/tools/zck_read_header"],
}

CHECKS["C10"] = {
    "level": "exploration",
    "technique": "exhaustive enumeration of all 2^N validity markings (N <= 10 quick, <= 12 thorough) x 8 limits per generated index, plus random large indexes (up to 6000 chunks) with boundary-fit steering of the rendered text length; oracle = set computation over the reference chunk table (prefix cover, merge, limit, exact string, range index)",
    "level_text": "For small indexes the marking space is enumerated completely for every limit; for large ones the marking is random and, in most unlimited cases, steered so that a range's text ends exactly at (or one byte around) the 32768/49152/73728-byte buffer sizes of the string builder. Every request is compared with an independent computation: ranges ascending/disjoint/non-adjacent/outside the header, union == extents of a prefix of the missing chunks, limit respected, exact text, range index contents.",
    "level_note": "Trusted: the chunk table computed from the emitted header. Domain: flags 0/1 with zero-length chunks valid (what every scan establishes); a third of the small cases derive the marking through find_valid_chunks + reset_failed_chunks on a damaged target.",
    "rule": "case = (index: N, stored sizes, dictionary?) x marking x limit. Non-trivial = request with >= 2 ranges in which at least two adjacent missing chunks were merged into one range; enumerated cases are distinct by construction (index, marking, limit), others by choice-sequence hash.",
    "assumptions": ["zero-length chunks are never presented as missing (no scan leaves them so)"],
    "runs": [
        {"bin": "asan/C10", "cases": P(400, 4000), "procs": P(8, 16), "size": 70, "shrink_budget": 80},
    ],
}

CHECKS["C04"] = {
    "level": "exploration",
    "technique": "scenario generation over (A, B, initial target, range limit, server range cap, multipart style, response fragmentation) driving a call-for-call mirror of zckdl's update procedure against an in-process range server; oracle = target == B, data checksum valid, strict progress per round, and set equality between the bytes requested and the reference-computed extents of chunks neither valid in the target nor available in A",
    "level_text": "Each generated scenario runs the whole documented procedure (header fetch, validity scan, local copy, request rounds with single-range and multipart responses, final validation) through the public API. The requested byte ranges of all rounds are compared, as a multiset of bytes, with an independent computation over the reference-parsed indexes of A and B and the initial target bytes. Sampled scenarios; both tiers also run the real zckdl binary (ASan build) against a loopback HTTP range server driven by Hypothesis (props/C04_zckdl.py), with the same fetch-set oracle computed by an independent Python header parser.",
    "level_note": "Trusted: reference parser/digests; the in-process server answers exactly the requested bytes (206 single body or multipart/byteranges) and 200 when asked for more ranges than it accepts. Multipart boundaries are alphanumeric here (other boundary strings are C05's subject).",
    "rule": "case = (B chunk list + config, A derivation, initial target, limit policy, server cap, style, cut style). Non-trivial = at least one chunk reused (from A or the target) AND at least one fetched AND a multipart response used; distinct by choice-sequence hash.",
    "assumptions": ["server holds B unchanged for the whole update", "A is an intact zchunk file (damaged sources are C08's subject)"],
    "runs": [
        {"bin": "asan/C04", "cases": P(5000, 60000), "procs": P(8, 16), "size": 70, "shrink_budget": 300, "cpu_limit": 60},
        {"kind": "script", "bin": "props/C04_zckdl.py", "cases": P(40, 500), "procs": P(4, 16), "args": ["--property", "C04"]},
    ],
    "extra_targets": ["asan/tools/zck", "asan/tools/zckdl"],
}

CHECKS["C05"] = {
    "level": "exploration",
    "technique": "metamorphic + model-based: per generated (target pattern, request, response style, optional payload corruption) ALL 1-cut and (small responses) ALL 2-cut partitions of the response into callback invocations, 1-byte fragments and sampled k-cuts; oracle = unfragmented run satisfies placement/validity/confinement against the chunk table and a snapshot, every fragmented run yields the identical file, flags and acceptance",
    "level_text": "For each generated response the set of single cuts is enumerated completely and, for responses up to 220 (thorough 420) bytes, the set of cut pairs as well; every delivery runs on a fresh target and context. Placement, verification and confinement are checked on the unfragmented run against the generator's chunk table and a byte snapshot; fragmented runs must be indistinguishable. Exhaustive over cuts per response, responses sampled.",
    "level_note": "Trusted: generator's chunk table, in-process server (gen/dl.hpp). Transport model: header lines arrive one per header callback (in heap blocks of exactly their length), body fragments <= 16 KiB except in the large-response class (one in six cases: chunks of 20-60 KB, pieces of any length, e.g. everything behind a cut inside a part header in ONE piece), delivery stops at the first callback that returns a short count (as libcurl does). Extra part headers never contain the text 'content-range:'; header values carry no trailing whitespace.",
    "rule": "case = (B, validity pattern, limit, response style/boundary, corruption?) x cut set. Non-trivial = response with >= 2 parts (or >= 2 chunks in a single range) and, for multipart, at least one cut falling strictly inside a part header (boundary line, headers or the blank line); distinct = (case, cut set) by construction.",
    "assumptions": ["server sends parts in request order", "transport stops delivering after a callback signals an error"],
    "runs": [
        {"bin": "asan/C05", "cases": P(24, 110), "procs": P(8, 16), "size": 70, "shrink_budget": 20, "cpu_limit": 300},
    ],
}

CHECKS["C08"] = {
    "level": "exploration",
    "technique": "model-based scenario generation: targets with generated validity patterns x 1..3 sources derived from the target's chunk list and then damaged (body corruption, truncation, zeroing, re-sealed mis-indexing incl. planted digests, other dictionary/hash/compression), copies applied in sequence; oracle = reference digest of the bytes now in the target for every valid chunk, reference index of the source for every chunk that became valid, zero-fill of failed chunks, byte snapshots of source and of the target outside changed extents; plus a matching-only mode against reference indexes",
    "level_text": "After every zck_copy_chunks the complete target and source files are re-read and compared with snapshots, and every valid flag is re-derived from the bytes on disk by the reference. Sources whose index promises data the body does not hold (re-sealed headers with swapped or planted digests) exercise the re-hash on copy. Sampled scenarios.",
    "level_note": "Trusted: reference parser/digests, generator's chunk tables. Failed chunks are reset to missing between copies, as the documented procedure does.",
    "rule": "case = (B, target pattern, sources with edits + damage, order). Non-trivial = one run contains both a chunk accepted from a damaged source and a chunk rejected (failed, zero-filled) from a damaged source, plus a quarter of the runs with a rejection only; matching mode: some but not all target chunks paired. Distinct by choice-sequence hash.",
    "assumptions": ["no hash collisions"],
    "runs": [
        {"bin": "asan/C08", "cases": P(10000, 100000), "procs": P(8, 16), "size": 70, "shrink_budget": 300},
    ],
}

CHECKS["C17"] = {
    "level": "exploration",
    "technique": "structure-aware fuzzing of the download callbacks: fuzzed header lines (boundary parameters with metacharacters/quotes/empty/16 KiB/NUL) x fuzzed bodies (mutated correct responses, structured parts with fuzzed boundary lines and content-range numbers, noise) x fragmentations x two delivery modes (transport stops at first error / pass-through keeps delivering), in forked children under ASan/UBSan with CPU limit; post-condition oracle = C05's verification and confinement against reference digests and a snapshot; also a libFuzzer campaign over the same property",
    "level_text": "Each case drives zck_header_cb and zck_write_chunk_cb with generated header lines and body fragments on a real target with a real missing-range request, in both delivery modes the public API allows, optionally followed by zck_dl_reset and a well-formed second response on the same context. Any sanitizer report, signal or CPU overrun is a violation; afterwards valid chunks must hash correctly and no byte outside the requested extents may differ from the snapshot. Fuzzing never shows absence.",
    "level_note": "Trusted: generator's chunk table and reference digests. Leaks out of scope.",
    "rule": "case = (target pattern, limit, delivery mode, header lines, body, cuts, optional second round). Non-trivial = a boundary was extracted from the header lines AND the part-header pattern was built (the multipart state machine ran); distinct by choice-sequence hash.",
    "assumptions": ["fragments are at most 16 KiB, header lines arrive one per header callback"],
    "runs": [
        {"bin": "asan/C17", "cases": P(6000, 100000), "procs": P(8, 16), "size": 70, "cpu_limit": 40, "shrink_budget": 250},
        {"kind": "fuzz", "bin": "asan/fuzz_C17", "cases": P(40000, 400000), "procs": P(4, 16), "max_len": 6000},
    ],
}

CHECKS["C11"] = {
    "level": "fault_enumeration",
    "technique": "crash-point enumeration: per generated update scenario every write system call on the target (exhaustive up to 120, thorough 400, kill points; sampled above) is turned into a kill point via -Wl,--wrap=write in a forked child, with a generated fraction of the interrupted write performed; then the whole procedure is re-run with fresh contexts; oracle = reference recomputation of which chunks were completely and correctly on disk, convergence to B, no trust in partial chunks, no re-fetch of complete chunks or of chunks the old file provides",
    "level_text": "Kill points are enumerated exhaustively per scenario (every write call of the update, including those that end inside a chunk or a multipart part header because responses are delivered in 1..45-byte fragments); scenarios are generated. For a third of the scenarios the resume is interrupted once more. The resume must converge to B and its requests must avoid every chunk the reference finds complete on disk at the kill point.",
    "level_note": "Trusted: reference digests, the in-process server, the update-procedure mirror in gen/dl.hpp (kept call-for-call identical to zckdl main). A kill is modelled as process death between or inside write() calls; writes go straight to the descriptor (no buffering in the library), so the file content at the kill is exactly what had been written.",
    "rule": "case = scenario (A, B, initial target, limit, server cap, fragment size) x kill point k x written fraction. Non-trivial = the kill left at least one partially written chunk AND at least one complete chunk on disk; distinct = (scenario, k) by construction.",
    "assumptions": ["the uninterrupted update of the scenario succeeds (else the scenario is C04's business and is skipped)", "no power loss / reordering below the write() level"],
    "runs": [
        {"bin": "asan/C11", "cases": P(28, 500), "procs": P(8, 16), "size": 70, "shrink_budget": 40, "cpu_limit": 300},
        {"kind": "script", "bin": "props/C04_zckdl.py", "cases": P(30, 400), "procs": P(4, 16), "args": ["--property", "C11"]},
    ],
    "extra_targets": ["asan/tools/zck", "asan/tools/zckdl"],
}

TOOLS_WRAP = ["asan/tools-wrap/zck", "asan/tools-wrap/unzck"]

CHECKS["C12"] = {
    "level": "fault_enumeration",
    "technique": "fault-point enumeration through syscall interposition (-Wl,--wrap=read,write,lseek,ftruncate): per generated scenario instance (write, read, three validators, chunk copy, download callbacks, tools zck/unzck) a fault-free run counts the calls, then every k-th call of every kind is failed once with every applicable fault (EIO, ENOSPC, EINTR, short half/1/0) plus sampled double faults; oracle = success indications are compared with the bytes that really reached the descriptors (reference decode, content equality, reference chunk digests)",
    "level_text": "Single faults are enumerated exhaustively per scenario instance (every call index of every kind up to 120, thorough 400, per kind; sampled above that; tools: up to 14/60 call indexes per kind because each run is a process), scenario instances are generated. A short count really transfers only that many bytes, so what the descriptor holds afterwards is exactly what reached it.",
    "level_note": "Trusted: reference decoder/digests; interposition covers read/write/lseek/ftruncate on descriptors >= 3 (input, output, temporary, source, target). A read returning 0 is end-of-file by definition and is not injected as a fault. A validator returning 1 on an intact file after a retried short read is legitimate; violations are successes that contradict the file contents.",
    "rule": "case = scenario instance x (kind, k, fault) [x second fault]. Non-trivial = the planned fault was actually reached (iof_hit); distinct = (instance, plan) by construction.",
    "assumptions": ["faults below the system-call interface (page cache, disk) are out of scope", "descriptors 0-2 are never faulted"],
    "extra_targets": TOOLS_WRAP,
    "runs": [
        {"bin": "asan/C12", "cases": P(100, 550), "procs": P(8, 16), "size": 70, "shrink_budget": 40, "cpu_limit": 300},
    ],
}

CHECKS["C18"] = {
    "level": "exploration",
    "technique": "three-way differential testing of the two hash back ends (whole library built twice as shared objects, -Bsymbolic + dlopen(RTLD_LOCAL), provenance asserted with dladdr) against OpenSSL one-shot digests: exhaustive over message lengths 0..300 x 4 digest types x contents x update segmentations + NIST vectors, random long messages/segmentations, and file-level write/validate/read cross-checks",
    "level_text": "The bundled SHA code, which the repository's test configuration never compiles, is loaded next to the OpenSSL build in one process. All message lengths 0..300 (every block/padding edge of 64- and 128-byte blocks) are enumerated for every digest type with several contents and segmentations; random messages up to 1 MiB with random segmentations and complete files written through each build are compared as well. Exhaustive for the listed lengths, sampled beyond.",
    "level_note": "Trusted: OpenSSL one-shot EVP_Digest as the third opinion, NIST vectors as constants. Single updates >= 4 GiB are not generated (the library never issues them: updates are bounded by the chunk maximum, an int).",
    "rule": "digest case = (type, message, update cut points); non-trivial = message longer than one block (128 bytes) and more than one update. File case = (content, configuration, write history) with > 1000 bytes. Enumerated cases are distinct by construction, others by choice-sequence hash.",
    "assumptions": ["OpenSSL's one-shot digests are correct"],
    "extra_targets": ["so/ossl.so", "so/bundled.so"],
    "runs": [
        {"bin": "asan/C18", "cases": P(4000, 60000), "procs": P(8, 16), "size": 70, "shrink_budget": 200, "enum": True, "args": ["--no-fork"]},
    ],
}

CHECKS["C19"] = {
    "level": "exploration",
    "technique": "generated multi-threaded programs (2..8 threads, each a write/read/validate/copy/download scenario over its own contexts, generated yield/spin points, start barrier) built with ThreadSanitizer; oracle = serial equivalence of every thread's output digest plus absence of any happens-before race report (halt_on_error, attributed to the case by the fork-isolating runner)",
    "level_text": "Schedules are sampled, not enumerated: each case releases its threads from a barrier and perturbs them with generated delays. ThreadSanitizer's happens-before detection reports an unsynchronised conflicting pair whenever both accesses occur in the run, independent of timing, so shared library-owned state on an executed path is found without needing the harmful interleaving; serial-equivalence failures additionally need the interleaving to occur.",
    "level_note": "Absence of a report covers only the code paths the generated programs execute. Global logging is configured once before the threads start, as the property states.",
    "rule": "case = list of thread programs (kind, inputs, delay pattern). Non-trivial = at least two threads executed the same library path concurrently (copy||copy, read||read, ...); distinct by choice-sequence hash.",
    "assumptions": ["ThreadSanitizer's happens-before model (pthread create/join/barrier) is sound for the executed accesses"],
    "runs": [
        {"bin": "tsan/C19", "cases": P(700, 8000), "procs": P(8, 16), "size": 70, "shrink_budget": 40, "cpu_limit": 120},
    ],
}
