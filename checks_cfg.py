"""Per-property run configuration for ./check.  Case counts are what bounds a run (never a
per-case time limit); the `timeout` values only mark a run as inconclusive."""

def P(q, t):
    return {"quick": q, "thorough": t}

CHECKS = {}
NOT_APPLICABLE = {}
HOOK_COMMITS = []

CHECKS["C20"] = {
    "level": "exploration",
    "technique": "exhaustive enumeration of the listed sub-domains plus random generation, differential against an exact 128-bit reference codec, guard-page oracle for over-reads",
    "level_text": "Every value/byte string of the listed finite sub-domains is enumerated completely (round trip of [0,2^21) and all 2^k, 2^k+/-1; decode of all strings of length <= 3 at offsets 0..3; length 8..11 strings over the last three positions) and compared with an exact reference decoder, each input flush against an inaccessible page; random generation covers longer/odd strings. Exploration, not proof: strings outside the enumerated families are sampled.",
    "level_note": "Trusted: the reference codec in ref/zckref.hpp (written from zchunk_format.txt) and the library's calling convention compint == base + *length, max_length == total size, taken from every in-tree caller.",
    "rule": "generated: encode/decode round trips (value classes: < 2^21, 2^k and 2^k+/-1, near INT_MAX, near 2^64, random 64-bit) and decodes of byte strings "
            "(length 0..13, biased to continuation bytes, offsets 0..4, both destination types) flush against a PROT_NONE page; enumerated: see exhaustive_subdomains. "
            "Non-trivial = multi-byte encoding or any input the exact decoder rejects; distinct by hash of the choice sequence (enumerated cases are distinct by construction).",
    "assumptions": ["reference codec ref::ci_get/ci_put (exact 128-bit arithmetic) is correct", "library calling convention: compint == base + *length, max_length == total buffer size"],
    "runs": [
        {"bin": "plain/C20", "cases": P(200000, 3000000), "procs": P(4, 16), "enum": True, "enum_all_procs": True, "args": ["--no-fork"]},
        {"bin": "asan/C20", "cases": P(100000, 1000000), "procs": P(2, 4), "args": ["--no-fork"]},
    ],
}
