// Structure-aware and raw mutators for zchunk files (C02, C03, C13).
#pragma once
#include "gen/gens.hpp"
#include "ref/fields.hpp"

namespace gen {

static const ref::u128 U1 = 1;
static inline ref::u128 boundary_value(Ctx &c) {
    static const int sh[] = {7, 14, 21, 28, 31, 32, 35, 42, 49, 56, 62, 63, 64, 70, 31, 32, 63, 64, 64, 64};
    switch (c.draw(c.gver >= 2 ? 6 : 5)) {
    case 6: return (U1 << 64) - 1 - c.draw(600);       // so close to 2^64 that adding a header length or a few other sizes overflows
    case 0: return c.draw(3);
    case 1: return 127 + c.draw(2);
    case 2: { ref::u128 b = U1 << sh[c.pick(20)]; uint64_t k = c.draw(4); return k == 0 ? b - 1 : k == 1 ? b : k == 2 ? b + 1 : k == 3 ? b + c.draw(70000) : b - 1 - c.draw(70000); }
    case 3: return c.draw(70000);
    case 4: return ((ref::u128)c.u64() << (c.boolean() ? 6 : 0)) | c.draw(63);
    default: return c.u64();
    }
}

// One mutation of the field list; returns a description.
static inline std::string mutate_field(Ctx &c, ref::Fields &F) {
    std::vector<size_t> ints, blobs;
    for (size_t i = 0; i < F.f.size(); i++) (F.f[i].kind == ref::Fld::INT ? ints : blobs).push_back(i);
    // integers that steer the parser (sizes, counts, types) are picked half of the time; otherwise any integer
    std::vector<size_t> steer;
    for (size_t i : ints) { const std::string &n = F.f[i].name; if (n.find('.') == std::string::npos || n.find(".size") != std::string::npos || n[0] == 'o') steer.push_back(i); }
    auto pick_int = [&]() { return (!steer.empty() && c.boolean()) ? steer[c.pick(steer.size())] : ints[c.pick(ints.size())]; };
    auto nm = [&](size_t i) { return F.f[i].name; };
    auto u128s = [](ref::u128 v) { char b[64]; if (v >> 64) snprintf(b, sizeof b, "0x%llx%016llx", (unsigned long long)(v >> 64), (unsigned long long)v); else snprintf(b, sizeof b, "%llu", (unsigned long long)v); return std::string(b); };
    switch (c.draw(c.gver >= 2 ? 13 : 11)) {
    case 0: case 1: { size_t i = pick_int(); ref::Fld &x = F.f[i]; x.v = boundary_value(c); x.autoval = false; return nm(i) + ":=" + u128s(x.v); }
    case 2: { size_t i = pick_int(); ref::Fld &x = F.f[i]; int64_t d = (int64_t)c.draw(6) - 3; if (d >= 0) d++;
              if (x.autoval) { x.adj += d; return nm(i) + "(auto)+=" + std::to_string(d); }
              x.v = (ref::u128)(uint64_t)((uint64_t)x.v + (uint64_t)d); return nm(i) + "+=" + std::to_string(d); }
    case 3: { size_t i = pick_int(); ref::Fld &x = F.f[i]; x.pad = 1 + c.draw(10); return nm(i) + " encoded in " + std::to_string(x.pad) + " bytes"; }
    case 4: { size_t i = pick_int(); ref::Fld &x = F.f[i]; x.raw_set = true; size_t n = 1 + c.draw(11); x.raw.clear();
              uint64_t style = c.draw(2);
              for (size_t k = 0; k < n; k++) x.raw.push_back(style == 0 ? (uint8_t)c.draw(0x7f) : style == 1 ? 0x7f : (uint8_t)c.draw(255));
              if (style == 1 && c.boolean()) x.raw.back() |= 0x80;
              return nm(i) + " raw=" + pbt::hexs(x.raw); }
    case 5: { if (blobs.empty()) return "none"; size_t i = blobs[c.pick(blobs.size())]; ref::Fld &x = F.f[i]; if (x.blob.empty()) return "none";
              size_t p = c.pick(x.blob.size()); x.blob[p] ^= (uint8_t)(1 + c.draw(254)); return nm(i) + "[" + std::to_string(p) + "] changed"; }
    case 6: { if (blobs.empty()) return "none"; size_t i = blobs[c.pick(blobs.size())]; ref::Fld &x = F.f[i];
              if (c.boolean() && !x.blob.empty()) { x.blob.resize(c.draw(x.blob.size() - 1)); return nm(i) + " truncated to " + std::to_string(x.blob.size()); }
              size_t n = 1 + c.draw(40); for (size_t k = 0; k < n; k++) x.blob.push_back((uint8_t)c.draw(255)); return nm(i) + " extended by " + std::to_string(n); }
    case 7: {   // count vs entries
              int ci = F.find("count"); if (ci < 0) return "none"; ref::Fld &x = F.f[ci]; uint64_t k = c.draw(3);
              if (k == 0) { x.v = 0; return "count:=0"; } if (k == 1) { x.v = x.v + 1 + c.draw(3); return "count increased"; }
              if (k == 2 && x.v > 0) { x.v = x.v - 1; return "count-1"; } x.v = boundary_value(c); return "count:=" + u128s(x.v); }
    case 8: {   // drop or duplicate a whole entry
              std::vector<size_t> starts; for (size_t i = 0; i < F.f.size(); i++) if (F.f[i].name.size() > 7 && F.f[i].name.compare(F.f[i].name.size() - 7, 7, ".digest") == 0 && F.f[i].name[0] == 'e') starts.push_back(i);
              if (starts.empty()) return "none"; size_t s = starts[c.pick(starts.size())]; size_t e = s + 1; while (e < F.f.size() && F.f[e].section == 2 && !(F.f[e].name.size() > 7 && F.f[e].name.compare(F.f[e].name.size() - 7, 7, ".digest") == 0)) e++;
              if (c.boolean()) { std::string n = F.f[s].name; F.f.erase(F.f.begin() + s, F.f.begin() + e); return "entry " + n + " dropped"; }
              std::vector<ref::Fld> cp(F.f.begin() + s, F.f.begin() + e); for (auto &x : cp) x.name += "'"; F.f.insert(F.f.begin() + e, cp.begin(), cp.end()); return "entry " + F.f[s].name + " duplicated"; }
    case 9: { ref::Fld t = ref::fblob("trailing", c.bytes(1 + c.draw(30)), 3); F.f.push_back(t); return "trailing bytes added"; }
    case 10: { F.detached = !F.detached; return F.detached ? "magic:=ZHR1" : "magic:=ZCK1"; }
    case 12: {  // a length field that wraps the cursor BACKWARDS: optional element whose data size is 2^64 - k.  With k = the size of
                // the element's own id+size fields the parser lands on the same element again; the element count says how often.
              int fi = F.find("flags"), ci = F.find("comp_type"); if (fi < 0 || ci < 0) return "none";
              F.f[fi].v |= 2;
              if (F.find("opt_count") < 0) { std::vector<ref::Fld> ins = {ref::fint("opt_count", 1, 1), ref::fint("opt0.id", c.draw(300), 1), ref::fint("opt0.size", 0, 1), ref::fblob("opt0.data", Bytes(), 1)}; F.f.insert(F.f.begin() + ci + 1, ins.begin(), ins.end()); }
              std::vector<size_t> sz; for (size_t i = 0; i < F.f.size(); i++) if (F.f[i].name.size() > 5 && F.f[i].name.compare(0, 3, "opt") == 0 && F.f[i].name.compare(F.f[i].name.size() - 5, 5, ".size") == 0) sz.push_back(i);
              if (sz.empty()) { int oc = F.find("opt_count"); F.f[oc].v = boundary_value(c); return "opt_count:=" + u128s(F.f[oc].v) + " (no element)"; }
              size_t i = sz[c.pick(sz.size())]; ref::Fld &x = F.f[i]; ref::Fld &id = F.f[i - 1];
              Bytes idenc; ref::ci_put_wide(idenc, id.v, id.pad); uint64_t self = idenc.size() + 10;      // id field + 10-byte size field
              uint64_t k = c.chance(2, 3) ? self : 1 + c.draw(40);
              x.v = ((ref::u128)1 << 64) - k; x.pad = 10; x.autoval = false; x.raw_set = false; F.f[i + 1].blob.clear();
              ref::Fld &cnt = F.get("opt_count"); uint64_t ck = c.draw(3); cnt.v = ck == 0 ? (ref::u128)1 << 63 : ck == 1 ? ((ref::u128)1 << 64) - 1 : ck == 2 ? (ref::u128)1 << 40 : cnt.v + c.draw(3);
              return nm(i) + ":=2^64-" + std::to_string(k) + " (cursor moves back" + (k == self ? " onto the element itself" : "") + "), opt_count:=" + u128s(cnt.v); }
    case 13: { int fi = F.find("flags"); if (fi < 0) return "none"; F.f[fi].v ^= (ref::u128)1 << (3 + c.draw(60)); return "flags:=" + u128s(F.f[fi].v); }   // unknown flag bits, incl. 32..63
    default: { int fi = F.find("flags"); if (fi < 0) return "none"; F.f[fi].v ^= (ref::u128)1 << c.draw(3); return "flags:=" + u128s(F.f[fi].v); }
    }
}

// Raw byte-level mutation of a file image.
static inline std::string mutate_raw(Ctx &c, Bytes &f, size_t header_len) {
    if (f.empty()) { f.push_back((uint8_t)c.draw(255)); return "byte appended to empty file"; }
    bool in_body = f.size() > header_len && c.chance(2, 3);
    auto pos = [&]() { return in_body ? header_len + c.draw(f.size() - header_len - 1) : c.draw(f.size() - 1); };
    switch (c.draw(6)) {
    case 0: { size_t p = pos(); f[p] ^= (uint8_t)(1u << c.draw(7)); return "bit flip at " + std::to_string(p); }
    case 1: { size_t p = pos(); f[p] = (uint8_t)(f[p] + 1 + c.draw(254)); return "byte substituted at " + std::to_string(p); }
    case 2: { size_t p = pos(); size_t n = 1 + c.skewed(200); Bytes ins = c.bytes(std::min<size_t>(n, 300)); f.insert(f.begin() + p, ins.begin(), ins.end()); return std::to_string(ins.size()) + " bytes inserted at " + std::to_string(p); }
    case 3: { size_t p = pos(); size_t n = std::min<size_t>(1 + c.skewed(200), f.size() - p); f.erase(f.begin() + p, f.begin() + p + n); return std::to_string(n) + " bytes deleted at " + std::to_string(p); }
    case 4: { size_t n = c.draw(f.size() - 1); f.resize(n); return "truncated to " + std::to_string(n); }
    case 5: { Bytes g = c.bytes(1 + c.draw(40)); f.insert(f.end(), g.begin(), g.end()); return "trailing garbage appended"; }
    default: { size_t p = pos(); size_t n = std::min<size_t>(1 + c.draw(64), f.size() - p); for (size_t i = 0; i < n; i++) f[p + i] = 0; return "zeroed " + std::to_string(n) + " at " + std::to_string(p); }
    }
}

} // namespace gen
