// Shared generators.  Everything is a pure function of the choices drawn from pbt::Ctx; bulk
// data is expanded from a drawn (kind, length, seed) triple so that cases stay small and shrink.
#pragma once
#include "pbt/pbt.hpp"
#include "lib/zcklib.hpp"
#include "ref/zckref.hpp"
#include <zdict.h>

namespace gen {
using pbt::Ctx; using pbt::Bytes;

static inline void fill_random(uint8_t *p, size_t n, uint64_t seed) {
    pbt::Rng r(seed); size_t i = 0;
    for (; i + 8 <= n; i += 8) { uint64_t v = r.next(); memcpy(p + i, &v, 8); }
    if (i < n) { uint64_t v = r.next(); memcpy(p + i, &v, n - i); }
}

static const char *content_kinds[] = {"empty", "one-byte", "random", "small-alphabet", "runs", "repeated-blocks", "text-markers", "zeros", "passages"};

// Content of `len` bytes of the given kind.
static inline Bytes make_content(int kind, size_t len, uint64_t seed) {
    Bytes b(len); pbt::Rng r(seed ^ 0x1234);
    switch (kind) {
    case 0: b.clear(); break;
    case 1: b.assign(len ? 1 : 0, (uint8_t)seed); break;
    case 2: fill_random(b.data(), len, seed); break;
    case 3: for (auto &x : b) x = "abcd"[r.next() & 3]; break;
    case 4: { size_t i = 0; while (i < len) { size_t run = 1 + r.below(2000); uint8_t v = (uint8_t)r.next(); for (size_t j = 0; j < run && i < len; j++) b[i++] = v; } break; }
    case 5: { size_t blk = 64 + r.below(20000); Bytes block(blk); fill_random(block.data(), blk, seed + 7);
              for (size_t i = 0; i < len; i++) b[i] = block[i % blk]; break; }
    case 6: { static const char *words[] = {"<text:p>", "lorem ", "ipsum ", "<<text:", "dolor\n", "sit amet ", "<office:", "0123456789", "\r\n", "zchunk "};
              size_t i = 0; while (i < len) { const char *w = words[r.below(10)]; for (; *w && i < len; w++) b[i++] = *w; } break; }
    case 8: { // a few hundred passages of 150-700 characters recurring in random order with a little unique text between them: repeats that lie
              // far apart (what long-distance matching, large windows and dictionaries change the encoding of); only asked for explicitly
              std::vector<std::string> par(300); pbt::Rng pr(12345); for (auto &q : par) { size_t n = 150 + pr.below(550); for (size_t i = 0; i < n; i++) q += "abcdefghijklmnopqrstuvwxyz <>/=\"\n"[pr.below(33)]; }
              size_t i = 0; while (i < len) { const std::string &q = par[r.below(300)]; for (size_t j = 0; j < q.size() && i < len; j++) b[i++] = (uint8_t)q[j]; for (int j = 0; j < 12 && i < len; j++) b[i++] = (uint8_t)('A' + r.below(26)); } break; }
    default: std::fill(b.begin(), b.end(), 0); break;
    }
    return b;
}

struct Content { Bytes data; int kind; std::string str() const { return std::string(content_kinds[kind]) + "[" + std::to_string(data.size()) + "]"; } };

// maxlen is the absolute cap; the drawn length is biased small and scaled by the case size.
static inline Content content(Ctx &c, size_t maxlen) {
    int kind = (int)c.draw(7);
    size_t len;
    uint64_t k = c.draw(9);
    size_t cap = (size_t)((uint64_t)maxlen * (unsigned)std::max(c.size, 5) / 100);
    if (k < 3) len = c.draw(std::min<size_t>(cap, 300));
    else if (k < 7) len = c.draw(std::min<size_t>(cap, 70000));
    else len = c.draw(cap);
    uint64_t seed = c.draw(0xffff);
    if (kind == 0) len = 0; if (kind == 1) len = std::min<size_t>(len, 1);
    Content r; r.kind = kind; r.data = make_content(kind, len, seed); return r;
}

// Dictionary: none / raw bytes / slices of the content / ZDICT-trained.
static inline Bytes dictionary(Ctx &c, const Bytes &content) {
    uint64_t k = c.draw(5);
    if (k <= 2) return Bytes();
    if (k == 3) { size_t n = 1 + c.draw(4000); Bytes d(n); fill_random(d.data(), n, c.draw(999)); return d; }
    if (k == 4) { if (content.empty()) return Bytes(); size_t n = 1 + c.draw(std::min<size_t>(content.size() - 1, 30000)); size_t off = c.draw(content.size() - n); return Bytes(content.begin() + off, content.begin() + off + n); }
    // trained dictionary from slices of the content
    if (content.size() < 4096) return Bytes();
    size_t ns = 40; std::vector<size_t> sizes(ns, content.size() / ns); Bytes d(8192);
    size_t rv = ZDICT_trainFromBuffer(d.data(), d.size(), content.data(), sizes.data(), (unsigned)ns);
    if (ZDICT_isError(rv)) return Bytes();
    d.resize(rv); return d;
}

// Writer configuration honouring the setters' legality rules (max before min, min <= max).
static inline lib::WCfg wcfg(Ctx &c, const Bytes &content) {
    lib::WCfg w;
    w.comp = c.chance(2, 3) ? ZCK_COMP_ZSTD : ZCK_COMP_NONE;
    if (w.comp == ZCK_COMP_ZSTD && c.boolean()) {
        int maxlvl = content.size() > 300000 ? 3 : content.size() > 40000 ? 9 : 22;
        w.level = (int)c.draw(maxlvl);
    }
    w.dict = dictionary(c, content);
    w.manual = c.boolean();
    if (c.boolean()) {
        static const long picks[] = {1, 2, 7, 100, 4095, 4096, 8191, 8192, 8193, 10000, 32768, 100000, 131071, 131072, 131073, 300000, 10485760, 20000000};
        w.chunk_max = c.boolean() ? picks[c.pick(sizeof picks / sizeof *picks)] : (long)(1 + c.skewed(400000));
        if (c.boolean()) {
            uint64_t k = c.draw(3);
            w.chunk_min = k == 0 ? 1 : k == 1 ? w.chunk_max : (long)(1 + c.draw(w.chunk_max - 1));
            if (k == 3) w.chunk_min = (long)(1 + c.draw(std::min<long>(w.chunk_max - 1, 9000)));
        }
    }
    if (c.boolean()) w.chunk_hash = (int)c.draw(3);
    if (c.boolean()) w.full_hash = (int)c.draw(3);
    if (c.rarely(4)) { w.uncomp = true; w.uncomp_first = c.boolean(); }
    return w;
}

// Segmentation of `len` bytes into write calls (+ end_chunk calls when `ends`).
static inline std::vector<lib::WOp> whistory(Ctx &c, size_t len, bool ends) {
    std::vector<lib::WOp> ops; uint64_t style = c.draw(5); size_t left = len;
    if (style == 0) { ops.push_back({false, len}); left = 0; }
    size_t guard = 0;
    while (left > 0 && guard++ < 5000) {
        size_t n;
        switch (style) {
        case 1: n = 1 + c.draw(63); break;                                  // tiny writes
        case 2: n = 1 + c.draw(std::min<size_t>(left, 70000) - 1 + 0); break;
        case 3: { static const size_t s[] = {1, 4095, 4096, 8191, 8192, 8193, 32767, 32768, 32769, 131072}; n = s[c.pick(10)]; break; }
        case 4: n = 1; if (guard > 300) n = left; break;                  // one byte at a time (bounded)
        default: n = 1 + c.skewed(left - 1); break;
        }
        n = std::min(n, left); ops.push_back({false, n}); left -= n;
        if (ends && c.rarely(4)) ops.push_back({true, 0});
    }
    if (left) ops.push_back({false, left});
    if (ends && c.rarely(3)) ops.push_back({true, 0});
    return ops;
}
static inline std::string ops_str(const std::vector<lib::WOp> &ops) {
    std::string s; size_t shown = 0;
    for (auto &o : ops) { if (shown++ > 12) { s += "...(" + std::to_string(ops.size()) + " ops)"; break; } s += o.end ? "E " : "w" + std::to_string(o.n) + " "; }
    return s;
}

// Cyclic list of read buffer sizes.
static inline std::vector<size_t> rhistory(Ctx &c) {
    std::vector<size_t> r; size_t n = 1 + c.draw(3);
    static const size_t s[] = {1, 2, 7, 100, 1000, 4096, 8191, 8192, 8193, 32767, 32768, 32769, 65536, 131072, 1 << 20, 5 << 20};
    for (size_t i = 0; i < n; i++) r.push_back(c.boolean() ? s[c.pick(sizeof s / sizeof *s)] : 1 + c.skewed(200000));
    // all-1-byte reads of a big file are quadratic in the library; keep the product bounded
    return r;
}
static inline std::string sizes_str(const std::vector<size_t> &v) { std::string s; for (auto x : v) s += std::to_string(x) + " "; return s; }

// ---- small chunked files with a known chunk table ------------------------------------------
// A valid file whose chunk table is known exactly: plain[0] = dictionary bytes, plain[1..] =
// data chunks; D = concatenation of the data chunks.  Written either by the library (manual
// chunking, end_chunk after every chunk) or by the reference writer; parsed by the reference.
struct ZFile {
    Bytes file; ref::Header h; std::vector<Bytes> plain; Bytes D; std::string desc;
    int comp = 0; bool by_ref = false;
    size_t nchunks() const { return h.entries.size(); }                 // incl. dictionary entry
    size_t off(size_t i) const { return h.total_size + (size_t)h.starts[i]; }   // file offset of chunk i
    size_t clen(size_t i) const { return (size_t)h.entries[i].comp_len; }
};
struct ZFileOpts {
    size_t max_chunks = 8, max_chunk = 3000; int force_comp = -1;       // -1 any, else ZCK_COMP_*
    bool allow_dict = true, allow_uncomp = true, allow_dups = true, allow_ref_writer = true, allow_empty = true;
    int force_chunk_hash = -1;
    // 1-in-big_rate files get one chunk that crosses the library's internal block sizes (32 KiB copy/scan/read buffer; with
    // big_huge also zstd's 128 KiB block): stored sizes of 32768+-2, 33000..70000, 131072+-2, 132000..200000 bytes.  0 = never.
    unsigned big_rate = 0; bool big_huge = false;
    bool allow_trailing = true;         // reference-written files may carry unused bytes at the end of the header
    bool allow_empty_stored = true;     // reference-written zstd files may hold stored-but-empty chunks
};
static inline Bytes chunk_content(Ctx &c, size_t maxlen) {
    uint64_t k = c.draw(5); size_t n = 1 + (k == 0 ? c.draw(3) : k <= 2 ? c.draw(std::min<size_t>(maxlen, 200) - 1) : c.draw(maxlen - 1));
    uint64_t seed = c.draw(0xffff); Bytes b(n);
    switch (c.draw(3)) {
    case 0: fill_random(b.data(), n, seed); break;                                         // incompressible
    case 1: { pbt::Rng r(seed); for (auto &x : b) x = "abcd\n"[r.next() % 5]; break; }     // compressible
    case 2: { pbt::Rng r(seed); uint8_t v = (uint8_t)r.next(); size_t run = 0; for (auto &x : b) { if (!run) { run = 1 + r.below(64); v = (uint8_t)r.next(); } x = v; run--; } break; }
    default: std::fill(b.begin(), b.end(), (uint8_t)seed); break;
    }
    return b;
}
struct ZParams { int comp = ZCK_COMP_ZSTD; Bytes dict; std::vector<Bytes> chunks; int full_hash = -1, chunk_hash = -1; bool uncomp = false; int level = -1; bool by_ref = false; bool store_empty = false; bool no_content_size = false; Bytes trailing; };
static inline ZFile zfile_build(Ctx &c, const ZParams &q0) {
    ZParams q = q0;      // empty data chunks exist only as stored-but-empty chunks of reference-written zstd files; a variant derived for the library's writer drops them
    if (!(q.by_ref && q.store_empty && q.comp == ZCK_COMP_ZSTD)) { q.store_empty = false; q.chunks.erase(std::remove_if(q.chunks.begin(), q.chunks.end(), [](const Bytes &b) { return b.empty(); }), q.chunks.end()); }
    ZFile z; z.comp = q.comp; z.by_ref = q.by_ref;
    for (auto &ch : q.chunks) z.D.insert(z.D.end(), ch.begin(), ch.end());
    if (q.by_ref) {
        ref::WriteSpec w; w.comp = q.comp; w.hash_type = q.full_hash < 0 ? 1 : q.full_hash; w.chunk_hash_type = q.chunk_hash < 0 ? 3 : q.chunk_hash;
        w.uncomp_flag = q.uncomp; w.dict = q.dict; w.chunks = q.chunks; w.level = q.level < 0 ? 3 : q.level; w.store_empty = q.store_empty; w.no_content_size = q.no_content_size;
        ref::EmitOpts eo; eo.trailing = q.trailing; z.file = ref::write(w, eo).file;
    } else {
        lib::WCfg w; w.comp = q.comp; w.full_hash = q.full_hash; w.chunk_hash = q.chunk_hash; w.uncomp = q.uncomp; w.dict = q.dict; w.manual = true; w.level = q.comp == ZCK_COMP_ZSTD ? q.level : -1;
        std::vector<lib::WOp> ops;
        for (auto &ch : q.chunks) { ops.push_back({false, ch.size()}); ops.push_back({true, 0}); }
        lib::WResult wr = lib::write_file(w, z.D, ops);
        if (!wr.ok) c.fail("sample-write", "library failed to write a plain sample: " + wr.cfg_err + wr.err);
        z.file = wr.file;
    }
    ref::ParseResult pr = ref::parse(z.file);
    if (!pr.ok || !pr.h.meta_ok) c.fail("sample-parse", "reference rejects a freshly written sample: " + pr.reason + pr.h.meta_reason);
    z.h = pr.h;
    if (z.h.entries.size() != q.chunks.size() + 1) c.fail("sample-chunks", "sample has " + std::to_string(z.h.entries.size()) + " index entries, expected " + std::to_string(q.chunks.size() + 1));
    z.plain.push_back(q.dict); for (auto &ch : q.chunks) z.plain.push_back(ch);
    std::ostringstream d; d << (z.by_ref ? "ref-written" : "lib-written") << " comp=" << (z.comp == ZCK_COMP_ZSTD ? "zstd" : "none") << " dict=" << q.dict.size()
      << " fullhash=" << z.h.hash_type << " chunkhash=" << z.h.chunk_hash_type << (q.uncomp ? " uncomp-flag" : "") << " chunks=[";
    for (size_t i = 0; i < q.chunks.size() && i < 16; i++) d << (i ? "," : "") << q.chunks[i].size() << ">" << z.h.entries[i + 1].comp_len;
    if (q.store_empty) d << " (stored-but-empty chunks)"; if (q.no_content_size) d << " (frames without content size)"; if (!q.trailing.empty()) d << " (" << q.trailing.size() << " unused header bytes)";
    if (q.chunks.size() > 16) d << ",...(" << q.chunks.size() << ")";
    d << "]"; z.desc = d.str();
    return z;
}
static inline ZParams zparams(Ctx &c, const ZFileOpts &o = ZFileOpts()) {
    ZParams q;
    q.comp = o.force_comp >= 0 ? o.force_comp : (c.chance(2, 3) ? ZCK_COMP_ZSTD : ZCK_COMP_NONE);
    size_t n = o.allow_empty ? c.draw(o.max_chunks) : 1 + c.draw(o.max_chunks - 1);
    if (o.allow_dict && c.rarely(3)) { q.dict.resize(1 + c.draw(600)); if (c.boolean()) fill_random(q.dict.data(), q.dict.size(), c.draw(999)); else { pbt::Rng r(c.draw(999)); for (auto &x : q.dict) x = "abcd\n"[r.next() % 5]; } }
    for (size_t i = 0; i < n; i++) {
        if (o.allow_dups && i > 0 && c.rarely(5)) q.chunks.push_back(q.chunks[c.pick(i)]);
        else q.chunks.push_back(chunk_content(c, o.max_chunk));
    }
    q.full_hash = c.boolean() ? (int)c.draw(3) : -1; q.chunk_hash = o.force_chunk_hash >= 0 ? o.force_chunk_hash : (c.boolean() ? (int)c.draw(3) : -1);
    q.uncomp = o.allow_uncomp && c.rarely(5);
    if (q.uncomp && (q.chunk_hash == 0 || q.chunk_hash == 3 || q.chunk_hash == -1)) q.chunk_hash = 1 + (int)c.draw(1);
    q.by_ref = o.allow_ref_writer && c.rarely(3);
    if (q.by_ref) q.level = 1 + (int)c.draw(5); else if (q.comp == ZCK_COMP_ZSTD && c.boolean()) q.level = (int)c.draw(9);
    if (c.gver >= 2 && o.big_rate && !q.chunks.empty() && c.rarely(o.big_rate)) {
        size_t idx = c.boolean() ? q.chunks.size() - 1 : c.pick(q.chunks.size());
        uint64_t k = c.draw(o.big_huge ? 5 : 2); size_t n;
        switch (k) { case 0: n = 32766 + c.draw(4); break; case 1: n = 33000 + c.draw(37000); break; case 2: n = 32768 * 2 - 1 + c.draw(2); break;
                     case 3: n = 131070 + c.draw(4); break; case 4: n = 132000 + c.draw(68000); break; default: n = 262143 + c.draw(2); break; }
        Bytes b(n); uint64_t seed = c.draw(0xffff);
        // incompressible (stored size ~ size, so the stored chunk crosses the block size too) or mildly compressible
        uint64_t ck = c.draw(3);
        if (ck <= 1) fill_random(b.data(), n, seed); else if (ck == 2) { pbt::Rng r(seed); for (auto &x : b) x = (uint8_t)(r.next() % 23); }
        else { std::fill(b.begin(), b.end(), 0); pbt::Rng r(seed); size_t head = r.below(3) == 0 ? 0 : 1 + r.below(40), tail = r.below(3) == 0 ? 0 : 1 + r.below(40);   // a disk-image style chunk: whole 32 KiB blocks of zeros
               for (size_t i = 0; i < head && i < n; i++) b[i] = (uint8_t)(1 + r.below(255)); for (size_t i = 0; i < tail && i < n; i++) b[n - 1 - i] = (uint8_t)(1 + r.below(255)); }
        q.chunks[idx] = b; if (q.level > 3) q.level = 3;
    }
    // a chunk that stores bytes but holds no data (the zstd frame of nothing: stored size 9..13, size 0) - legal, read back as nothing,
    // never produced by the library's writer, so only the reference writer makes it
    if (c.gver >= 4 && o.allow_empty_stored && q.by_ref && q.comp == ZCK_COMP_ZSTD && c.rarely(3)) { size_t at = c.draw(q.chunks.size()); q.chunks.insert(q.chunks.begin() + at, Bytes()); if (c.rarely(3)) q.chunks.insert(q.chunks.begin() + c.draw(q.chunks.size()), Bytes()); q.store_empty = true; }
    // reference-written files only: zstd frames without the content-size field; unused bytes between the signature count and the end of the header
    if (c.gver >= 4 && q.by_ref && q.comp == ZCK_COMP_ZSTD && c.rarely(3)) q.no_content_size = true;
    if (c.gver >= 4 && q.by_ref && o.allow_trailing && c.rarely(4)) q.trailing = c.bytes(1 + c.draw(40));
    // a dictionary larger than the library's 32 KiB block buffers (the dictionary is chunk 0 and is read, copied and extracted by its own code paths)
    if (c.gver >= 4 && o.big_rate && o.allow_dict && c.rarely(o.big_rate)) {
        uint64_t dk = c.draw(2); size_t n = dk == 0 ? 32766 + c.draw(4) : dk == 1 ? 32768 * (1 + c.draw(o.big_huge ? 3 : 1)) : 33000 + c.draw(o.big_huge ? 110000 : 40000); q.dict.resize(n); uint64_t seed = c.draw(0xffff);
        if (c.boolean()) fill_random(q.dict.data(), n, seed); else { pbt::Rng r(seed); for (auto &x : q.dict) x = (uint8_t)(r.next() % 23); }
        // the end of the dictionary holds the beginning of the content, so that the chunks really are encoded against its last block
        { size_t at = n; for (auto &ch : q.chunks) { size_t k = std::min(ch.size(), at > 1 ? at - 1 : 0); if (!k) break; at -= k; memcpy(q.dict.data() + at, ch.data(), k); if (n - at > 20000) break; } }
        if (q.level > 3) q.level = 3;
    }
    return q;
}
static inline ZFile zfile(Ctx &c, const ZFileOpts &o = ZFileOpts()) { return zfile_build(c, zparams(c, o)); }

} // namespace gen
