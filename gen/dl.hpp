// Scenario library for the download side (C04, C05, C11, C12, C17, C19): an in-process range
// server, a fragmenter that cuts responses into callback invocations, and the documented update
// procedure (a call-for-call mirror of zckdl's main() through the public API).
#pragma once
#include "gen/gens.hpp"

namespace dl {
using pbt::Ctx; using pbt::Bytes;

struct Range { uint64_t s, e; };
static inline bool parse_ranges(const std::string &str, std::vector<Range> &out) {
    size_t p = 0; out.clear();
    while (p < str.size()) {
        size_t d = str.find('-', p), cm = str.find(',', p); if (cm == std::string::npos) cm = str.size();
        if (d == std::string::npos || d > cm || d == p || d + 1 == cm) return false;
        for (size_t i = p; i < cm; i++) if (i != d && (str[i] < '0' || str[i] > '9')) return false;
        out.push_back({strtoull(str.substr(p, d - p).c_str(), 0, 10), strtoull(str.substr(d + 1, cm - d - 1).c_str(), 0, 10)});
        p = cm + 1;
    }
    return !out.empty();
}

// How the server spells a multipart response.
struct Style {
    std::string boundary = "00000000000000000001";
    bool quoted = false;                 // boundary="..."
    bool leading_crlf = true;            // body starts with CRLF before the first --boundary
    int header_case = 0;                 // 0 "Content-Range", 1 "content-range", 2 "CONTENT-RANGE"
    int spacing = 0;                     // 0 "bytes a-b/t", 1 "bytes  a - b /t" variants
    bool extra_part_headers = false;     // additional header lines in every part
    bool content_type_first = true;      // Content-Type line before Content-Range
    std::string ctype_param_prefix;      // e.g. " charset=x;" before boundary
    int ctype_case = 0;                  // response header name: 0 "Content-Type", 1 "content-type" (HTTP/2 style), 2 "CONTENT-TYPE", 3 "Content-type"
    int mtype_case = 0;                  // 0 "multipart/byteranges", 1 "Multipart/Byteranges", 2 "MULTIPART/BYTERANGES"
    int bkey_case = 0;                   // 0 "boundary", 1 "Boundary", 2 "BOUNDARY"
    bool vary_boundary = false;          // every multipart response of the session uses a different boundary (as Apache / nginx do)
    std::string str() const { return "boundary=" + (quoted ? "\"" + boundary + "\"" : boundary) + (leading_crlf ? "" : " no-leading-crlf") + " case=" + std::to_string(header_case) + " spacing=" + std::to_string(spacing) + (extra_part_headers ? " extra-headers" : "") + (ctype_case || mtype_case || bkey_case ? " ctype-spelling=" + std::to_string(ctype_case) + std::to_string(mtype_case) + std::to_string(bkey_case) : "") + (vary_boundary ? " boundary-varies" : ""); }
};
static inline Style gen_style(Ctx &c, bool safe_boundary_only) {
    Style s; uint64_t k = c.draw(5);
    static const char alnum[] = "0123456789abcdefghijklmnopqrstuvwxyzABCDEFGHIJKLMNOPQRSTUVWXYZ";
    static const char bchars[] = "0123456789abcdefghijklmnopqrstuvwxyzABCDEFGHIJKLMNOPQRSTUVWXYZ'()+_,-./:=?";
    size_t n = k == 0 ? 1 + c.draw(3) : k == 1 ? 70 : 4 + c.draw(36);
    s.boundary.clear();
    bool rfc = !safe_boundary_only && c.rarely(3);
    for (size_t i = 0; i < n; i++) s.boundary += rfc ? bchars[c.pick(sizeof bchars - 1)] : k == 2 ? alnum[c.pick(10)] : k == 3 ? alnum[c.pick(16)] : alnum[c.pick(62)];
    s.quoted = c.rarely(3); s.leading_crlf = !c.rarely(4); s.header_case = (int)c.draw(2); s.spacing = (int)c.draw(2);
    s.extra_part_headers = c.rarely(3); s.content_type_first = !c.rarely(3);
    if (c.gver >= 2) { if (c.rarely(3)) { s.ctype_case = (int)c.draw(3); s.mtype_case = (int)c.draw(2); s.bkey_case = (int)c.draw(2); } s.vary_boundary = c.boolean(); }
    return s;
}

struct Response {
    int status = 206;
    std::vector<std::string> header_lines;   // each ends with CRLF; delivered one per header callback
    Bytes body;
    std::vector<size_t> part_header_spans;   // [begin,end) pairs of part-header regions inside body (for cut classification)
};

struct Server {
    Bytes file; int max_ranges = 1000000; Style style;
    std::vector<std::pair<std::string, int>> log;     // (range string, status)
    unsigned multipart_responses = 0;
    Response respond(const std::string &range_str) {
        Response r; std::vector<Range> rg;
        if (!parse_ranges(range_str, rg)) { r.status = 400; log.push_back({range_str, 400}); return r; }
        for (auto &x : rg) if (x.s > x.e || x.s >= file.size()) { r.status = 416; log.push_back({range_str, 416}); return r; }
        if ((int)rg.size() > max_ranges) {          // too many ranges: the whole file with 200
            r.status = 200; r.header_lines = {"HTTP/1.1 200 OK\r\n", "Content-Length: " + std::to_string(file.size()) + "\r\n", "\r\n"}; r.body = file; log.push_back({range_str, 200}); return r;
        }
        std::string total = std::to_string(file.size());
        r.header_lines.push_back("HTTP/1.1 206 Partial Content\r\n");
        r.header_lines.push_back("Server: verif\r\n");
        if (rg.size() == 1) {
            uint64_t e = std::min<uint64_t>(rg[0].e, file.size() - 1);
            r.header_lines.push_back("Content-Range: bytes " + std::to_string(rg[0].s) + "-" + std::to_string(e) + "/" + total + "\r\n");
            r.header_lines.push_back("Content-Type: application/octet-stream\r\n"); r.header_lines.push_back("\r\n");
            r.body.assign(file.begin() + rg[0].s, file.begin() + e + 1);
        } else {
            Style s = style;
            if (s.vary_boundary && multipart_responses++ > 0) {   // same length, different text for every response
                std::string tag = std::to_string(multipart_responses); std::string &bd = s.boundary;
                for (size_t k = 0; k < tag.size() && k < bd.size(); k++) bd[bd.size() - 1 - k] = tag[tag.size() - 1 - k];
                if (bd == style.boundary) bd[bd.size() - 1] = bd.back() == 'x' ? 'y' : 'x';
            } else if (!s.vary_boundary) multipart_responses++;
            static const char *ctn[] = {"Content-Type", "content-type", "CONTENT-TYPE", "Content-type"}, *mtn[] = {"multipart/byteranges", "Multipart/Byteranges", "MULTIPART/BYTERANGES"}, *bkn[] = {"boundary", "Boundary", "BOUNDARY"};
            r.header_lines.push_back(std::string(ctn[s.ctype_case & 3]) + ": " + mtn[s.mtype_case % 3] + ";" + s.ctype_param_prefix + " " + bkn[s.bkey_case % 3] + "=" + (s.quoted ? "\"" + s.boundary + "\"" : s.boundary) + "\r\n");
            r.header_lines.push_back("\r\n");
            auto add = [&](const std::string &t) { r.body.insert(r.body.end(), t.begin(), t.end()); };
            for (size_t i = 0; i < rg.size(); i++) {
                uint64_t e = std::min<uint64_t>(rg[i].e, file.size() - 1);
                size_t hb = r.body.size();
                if (i > 0 || s.leading_crlf) add("\r\n");
                add("--" + s.boundary + "\r\n");
                std::string cr = s.header_case == 0 ? "Content-Range" : s.header_case == 1 ? "content-range" : "CONTENT-RANGE";
                std::string val = s.spacing == 0 ? " bytes " + std::to_string(rg[i].s) + "-" + std::to_string(e) + "/" + total
                                : s.spacing == 1 ? "bytes " + std::to_string(rg[i].s) + "-" + std::to_string(e) + "/" + total
                                                 : "  bytes  " + std::to_string(rg[i].s) + " - " + std::to_string(e) + " /" + total;
                if (s.content_type_first) add("Content-Type: application/octet-stream\r\n");
                if (s.extra_part_headers) add("X-Part: " + std::to_string(i) + "\r\nX-Note: bytes 1-2/3 is not the range\r\n");
                add(cr + ":" + val + "\r\n");
                if (!s.content_type_first) add("Content-Type: application/octet-stream\r\n");
                add("\r\n");
                r.part_header_spans.push_back(hb); r.part_header_spans.push_back(r.body.size());
                r.body.insert(r.body.end(), file.begin() + rg[i].s, file.begin() + e + 1);
            }
            add("\r\n--" + s.boundary + "--\r\n");
        }
        log.push_back({range_str, 206}); return r;
    }
};

// Cut positions (ascending offsets into the body) -> fragments; every fragment <= 16 KiB.
static inline std::vector<size_t> gen_cuts(Ctx &c, size_t len) {
    std::vector<size_t> cuts; if (len < 2) return cuts;
    switch (c.draw(5)) {
    case 0: break;                                                    // one fragment (<=16 KiB pieces)
    case 1: for (size_t p = 1; p < len && p < 6000; p++) cuts.push_back(p); break;    // 1-byte fragments (bounded), then big
    case 2: { size_t step = 1 + c.draw(15); for (size_t p = step; p < len && cuts.size() < 6000; p += step) cuts.push_back(p); break; }
    case 3: { size_t n = 1 + c.draw(7); for (size_t i = 0; i < n; i++) cuts.push_back(1 + c.draw(len - 2)); break; }
    case 4: { size_t p = 0; for (;;) { p += 1 + c.skewed(16383); if (p >= len) break; cuts.push_back(p); } break; }
    default: { static const size_t s[] = {1, 3, 5, 7, 13, 64, 16384}; size_t step = s[c.pick(7)]; for (size_t p = step; p < len && cuts.size() < 6000; p += step) cuts.push_back(p); break; }
    }
    std::sort(cuts.begin(), cuts.end()); cuts.erase(std::unique(cuts.begin(), cuts.end()), cuts.end());
    return cuts;
}
// Largest piece handed to a body callback: libcurl's CURL_MAX_WRITE_SIZE unless a property sets it (a transport with a bigger buffer)
static size_t g_max_piece = 16384;
static inline std::vector<std::pair<size_t, size_t>> fragments(size_t len, const std::vector<size_t> &cuts) {
    std::vector<std::pair<size_t, size_t>> fr; size_t at = 0;
    auto emit = [&](size_t a, size_t b) { while (a < b) { size_t n = std::min<size_t>(g_max_piece, b - a); fr.push_back({a, n}); a += n; } };
    for (size_t p : cuts) { if (p > at && p < len) { emit(at, p); at = p; } }
    if (at < len) emit(at, len);
    return fr;
}

// Deliver a response to a zckDL the way the transport does: header lines one per header callback,
// then body fragments through `wcb` until a callback returns a different count (transport stops).
// Returns true when everything was accepted.
typedef size_t (*WCB)(void *, size_t, size_t, void *);
// One header-callback invocation.  The bytes are handed over in a heap block of exactly their length (not NUL-terminated, as
// libcurl's are not guaranteed to be), so that a read past the end of what was delivered is a sanitizer report.
static inline bool header_line(zckDL *d, const std::string &l) {
    char *p = (char *)malloc(l.size() ? l.size() : 1); if (!l.empty()) memcpy(p, l.data(), l.size());
    size_t r = zck_header_cb(p, 1, l.size(), d); free(p); return r == l.size();
}
static inline bool deliver(zckDL *d, const Response &r, const std::vector<size_t> &cuts, WCB wcb, size_t *calls = nullptr, bool keep_going = false) {
    for (auto &l : r.header_lines) { if (!header_line(d, l)) return false; }
    bool ok = true;
    for (auto &f : fragments(r.body.size(), cuts)) {
        Bytes tmp(r.body.begin() + f.first, r.body.begin() + f.first + f.second);      // the library may scribble on the buffer (it does: NUL-terminates part headers)
        if (calls) (*calls)++;
        if (wcb(tmp.data(), 1, tmp.size(), d) != tmp.size()) { ok = false; if (!keep_going) return false; }
    }
    return ok;
}

// ---- the documented update procedure (mirror of zckdl main) ------------------------------------
struct UpdateCfg {
    const Bytes *A = nullptr;            // old file (source) or null
    int first_limit_index = 0;           // index into range_attempt[] {255,127,7,2,1}
    int fixed_limit = -2;                // if != -2: use this limit for every round (public API allows any)
    bool use_find_valid = true;
    std::function<std::vector<size_t>(size_t)> cutter;   // body length -> cuts
    size_t max_rounds = 10000;
};
struct UpdateResult {
    bool ok = false; std::string err; int stage = 0;
    std::vector<std::string> requested;       // body-phase range strings that were answered with 206
    std::vector<int> missing_before;          // missing count before every round
    Bytes target; int final_data_checksum = -99; int final_missing = -1; size_t rounds = 0;
    std::vector<int> flags_after_scan;        // validity vector after scan+copy+reset (before the first fetch)
    size_t header_bytes_requested = 0;
};
static const int range_attempt[] = {255, 127, 7, 2, 1};

static inline UpdateResult run_update(Server &srv, int tfd, const UpdateCfg &cfg) {
    UpdateResult R; zckCtx *src = nullptr; int sfd = -1;
    auto fail = [&](const std::string &e) { R.err = e; return R; };
    if (cfg.A) { sfd = lib::mkfd(*cfg.A); src = zck_create(); if (!zck_init_read(src, sfd)) { std::string e = zck_get_error(src); zck_free(&src); close(sfd); return fail("source does not open: " + e); } }
    zckCtx *tgt = zck_create(); zckDL *d = nullptr;
    auto cleanup = [&]() { if (d) zck_dl_free(&d); zck_free(&tgt); if (src) zck_free(&src); if (sfd >= 0) close(sfd); };
    if (!zck_init_adv_read(tgt, tfd)) { cleanup(); return fail("init_adv_read failed"); }
    d = zck_dl_init(tgt);
    auto cut = [&](size_t n) { return cfg.cutter ? cfg.cutter(n) : std::vector<size_t>(); };
    // --- dl_header
    size_t buffer_len = 0;
    auto dl_bytes = [&](size_t bytes, size_t start) -> bool {
        if (start + bytes > buffer_len) {
            lseek(tfd, buffer_len, SEEK_SET);
            zck_dl_reset(d);
            std::string rs = std::to_string(buffer_len) + "-" + std::to_string(start + bytes - 1);
            Response r = srv.respond(rs); if (r.status != 206) return false;
            R.header_bytes_requested += r.body.size();
            if (!deliver(d, r, cut(r.body.size()), zck_write_zck_header_cb)) return false;
            buffer_len += start + bytes - buffer_len;
            lseek(tfd, start, SEEK_SET);
        }
        return true;
    };
    R.stage = 1;
    if (!dl_bytes(zck_get_min_download_size(), 0)) { cleanup(); return fail("downloading the lead failed"); }
    if (!zck_read_lead(tgt)) { std::string e = zck_get_error(tgt); cleanup(); return fail("read_lead: " + e); }
    { off_t read_pos = lseek(tfd, 0, SEEK_CUR);      // zckdl returns to the library's read position after fetching the rest of the header
      size_t start = zck_get_lead_length(tgt); if (!dl_bytes(zck_get_header_length(tgt) - start, start)) { cleanup(); return fail("downloading the header failed"); }
      lseek(tfd, read_pos, SEEK_SET); }
    if (!zck_read_header(tgt)) { std::string e = zck_get_error(tgt); cleanup(); return fail("read_header: " + e); }
    R.stage = 2;
    int fv = zck_find_valid_chunks(tgt);
    if (fv == 0) { std::string e = zck_get_error(tgt); cleanup(); return fail("find_valid_chunks error: " + e); }
    if (fv != 1) {
        if (src && !zck_copy_chunks(src, tgt)) { cleanup(); return fail("copy_chunks failed"); }
        zck_reset_failed_chunks(tgt);
        for (zckChunk *ch = zck_get_first_chunk(tgt); ch; ch = zck_get_next_chunk(ch)) R.flags_after_scan.push_back(zck_get_chunk_valid(ch));
        R.stage = 3;
        int ra = cfg.first_limit_index; int max_ranges = cfg.fixed_limit != -2 ? cfg.fixed_limit : range_attempt[ra];
        while (zck_missing_chunks(tgt) > 0) {
            if (R.rounds++ > cfg.max_rounds) { cleanup(); return fail("update did not terminate within " + std::to_string(cfg.max_rounds) + " rounds"); }
            int missing_now = zck_missing_chunks(tgt);
            zck_dl_reset(d);
            zckRange *range = zck_get_missing_range(tgt, max_ranges);
            if (!range || !zck_dl_set_range(d, range)) { cleanup(); return fail("get_missing_range failed"); }
            if (cfg.fixed_limit == -2) while (range_attempt[ra] > 1 && range_attempt[ra + 1] > zck_get_range_count(range)) ra++;
            char *rs = zck_get_range_char(src, range);
            if (!rs) { zck_range_free(&range); cleanup(); return fail("get_range_char returned NULL"); }
            std::string range_str = rs; free(rs);
            Response r = srv.respond(range_str); int retval = 1;
            if (r.status == 200) { retval = -1; if (cfg.fixed_limit == -2 && max_ranges > 1) { ra++; max_ranges = range_attempt[ra]; } else if (cfg.fixed_limit != -2) { int cnt = zck_get_range_count(range); (void)!zck_dl_set_range(d, nullptr); zck_range_free(&range); cleanup(); return fail("server refuses " + std::to_string(cnt) + " ranges and the limit is fixed"); } }
            else if (r.status != 206) retval = 0;
            else { R.requested.push_back(range_str); R.missing_before.push_back(missing_now); if (!deliver(d, r, cut(r.body.size()), zck_write_chunk_cb)) retval = 0; }
            (void)!zck_dl_set_range(d, nullptr); zck_range_free(&range);
            if (!retval) { std::string e = zck_get_error(tgt); cleanup(); return fail("range download failed (status " + std::to_string(r.status) + "): " + e + " [request " + range_str.substr(0, 120) + "]"); }
        }
    }
    R.stage = 4;
    if (ftruncate(tfd, zck_get_length(tgt)) < 0) { cleanup(); return fail("ftruncate failed"); }
    R.final_data_checksum = zck_validate_data_checksum(tgt);
    R.final_missing = zck_missing_chunks(tgt);
    R.target = lib::fd_bytes(tfd);
    R.ok = R.final_data_checksum == 1;
    if (!R.ok) R.err = std::string("final data checksum validation returned ") + std::to_string(R.final_data_checksum);
    cleanup(); return R;
}

} // namespace dl
