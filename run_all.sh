#!/bin/sh
# Runs every registered check once (tier from $1, default quick) and prints one line per check.
cd "$(dirname "$0")"
tier=${1:-quick}
for id in $(python3 -c "import json;print(' '.join(c['property_id'] for c in json.load(open('MANIFEST.json'))['checks']))"); do
  s=$(date +%s); out=$(./check $id --tier $tier 2>&1); rc=$?; e=$(date +%s)
  echo "$id rc=$rc $((e-s))s $(echo "$out" | grep -E 'VIOLATION|KNOWN-FINDING|no violation' | tail -2 | tr '\n' ' ' | cut -c1-200)"
done
