#!/usr/bin/env python3
import sys, os
ROOT = os.path.dirname(os.path.abspath(__file__))
sys.path.insert(0, ROOT)
import importlib.util, importlib.machinery
loader = importlib.machinery.SourceFileLoader("checkmod", os.path.join(ROOT, "check"))
spec = importlib.util.spec_from_loader("checkmod", loader)
chk = importlib.util.module_from_spec(spec)
loader.exec_module(chk)
targets = set()
for pid, cfg in chk.CHECKS.items():
    for r in cfg["runs"]:
        if r.get("kind", "pbt") in ("pbt", "fuzz"):
            targets.add(r["bin"])
    targets.update(cfg.get("extra_targets", []))
chk.build(sorted(targets))
print("setup ok:", len(targets), "targets")
