// Choice-sequence property-based-testing core (minithesis style), shared by every check.
//
// A *case* is a finite sequence of integer choices.  A property is `void prop(pbt::Ctx&)`:
// it draws choices through Ctx (random source, replayed sequence, or libFuzzer bytes),
// builds its structured input from them, runs the code under test and calls c.fail(sig,msg)
// when the oracle is violated.  Because every random decision goes through Ctx::draw,
//   * a run is a pure function of (seed, case index, size),
//   * a failure shrinks generically (delete / zero / lower choices) and
//   * the shrunk choice sequence *is* the replay file, which the same binary re-runs as a plain
//     regression check (`--replay file`) without any generation,
//   * the same property is a libFuzzer target (bytes -> choices) when built with PBT_FUZZ.
//
// Runner (PBT_MAIN): cases run inside a forked worker whose choice buffer lives in shared
// memory, so a sanitizer abort / signal / CPU-time overrun inside the code under test is
// attributed to the exact case, confirmed by isolated re-runs, shrunk, and reported like any
// other failure.  Counters are written by the parent, so nothing is lost on a trap.
#pragma once
#include <cstdint>
#include <cstdio>
#include <cstdlib>
#include <cstring>
#include <string>
#include <vector>
#include <map>
#include <set>
#include <unordered_set>
#include <sstream>
#include <functional>
#include <algorithm>
#include <unistd.h>
#include <signal.h>
#include <fcntl.h>
#include <sys/mman.h>
#include <sys/wait.h>
#include <sys/time.h>
#include <sys/resource.h>
#include <time.h>
#include <poll.h>
#include <sys/prctl.h>

namespace pbt {

typedef std::vector<uint8_t> Bytes;

static inline uint64_t fnv1a(const void *p, size_t n, uint64_t h = 1469598103934665603ULL) {
    const uint8_t *b = (const uint8_t *)p;
    for (size_t i = 0; i < n; i++) { h ^= b[i]; h *= 1099511628211ULL; }
    return h;
}
static inline uint64_t mix64(uint64_t x) {
    x += 0x9e3779b97f4a7c15ULL; x = (x ^ (x >> 30)) * 0xbf58476d1ce4e5b9ULL;
    x = (x ^ (x >> 27)) * 0x94d049bb133111ebULL; return x ^ (x >> 31);
}
struct Rng {
    uint64_t s;
    explicit Rng(uint64_t seed = 1) : s(seed) {}
    uint64_t next() { s += 0x9e3779b97f4a7c15ULL; uint64_t z = s; z = (z ^ (z >> 30)) * 0xbf58476d1ce4e5b9ULL;
        z = (z ^ (z >> 27)) * 0x94d049bb133111ebULL; return z ^ (z >> 31); }
    uint64_t below(uint64_t n) { return n ? next() % n : 0; }   // [0,n)
};

struct Fail { std::string sig, msg; };
struct Discard {};

// Shared-memory block through which a worker tells its parent what it is doing.
struct Shm {
    volatile uint64_t phase;        // 0 idle, 1 running a case, 2 shrinking, 3 done
    volatile uint64_t case_index;
    volatile uint64_t nrec;         // number of valid entries in rec[]
    volatile uint64_t nbest;
    enum { CAP = 1 << 20 };
    uint64_t rec[CAP];
    uint64_t best[CAP];
    char bestsig[256];
    char desc[16384];               // description flushed by the worker before it runs the code under test
};

// Generator version: draws added to a generator after replay files were committed are guarded by
// `c.gver >= N`, so that an old replay file (no "genver" line = version 1) still decodes to the
// case it was saved for.  New cases are always generated (and saved) at PBT_GEN_VERSION.
#define PBT_GEN_VERSION 4
static int g_gver = PBT_GEN_VERSION;

struct Ctx {
    enum Mode { RANDOM, REPLAY, BYTES } mode = RANDOM;
    int gver = g_gver;
    Rng rng;
    const std::vector<uint64_t> *rep = nullptr; size_t pos = 0;
    const uint8_t *fb = nullptr; size_t fn = 0, fpos = 0;
    std::vector<uint64_t> rec;
    Shm *shm = nullptr;
    int size = 50;                  // 0..100, scales generated sizes
    int tier = 0;                   // 0 quick, 1 thorough
    uint64_t max_choices = Shm::CAP - 16;
    // reporting
    std::vector<std::string> labels;
    bool nontriv = false; uint64_t nontriv_key = 0; bool nontriv_key_set = false;
    std::ostringstream desc;        // human-readable description of the decoded case
    std::set<std::string> *known = nullptr;   // signatures listed as known findings
    uint64_t extra_evals = 0;       // property may account for inner evaluations
    uint64_t extra_distinct = 0;    // inner evaluations that are distinct non-trivial cases by construction

    uint64_t draw(uint64_t hi) {    // uniform in [0,hi]
        uint64_t v;
        if (rec.size() >= max_choices) v = 0;
        else if (mode == REPLAY) { v = pos < rep->size() ? (*rep)[pos] : 0; pos++; if (v > hi) v = hi; }
        else if (mode == BYTES) {
            v = 0; int nb = 0; uint64_t h = hi; while (h) { nb++; h >>= 8; }
            for (int i = 0; i < nb; i++) { uint64_t b = fpos < fn ? fb[fpos] : 0; fpos++; v |= b << (8 * i); }
            if (hi != UINT64_MAX) v %= (hi + 1);
        } else v = hi == UINT64_MAX ? rng.next() : rng.below(hi + 1);
        if (rec.size() < max_choices) {
            if (shm) { shm->rec[rec.size()] = v; shm->nrec = rec.size() + 1; }
            rec.push_back(v);
        }
        return v;
    }
    uint64_t range(uint64_t lo, uint64_t hi) { return lo + draw(hi - lo); }
    bool boolean() { return draw(1) != 0; }
    bool chance(unsigned num, unsigned den) { return draw(den - 1) < num; }  // shrinks towards true
    bool rarely(unsigned den) { return draw(den - 1) == den - 1; }           // shrinks towards false
    size_t pick(size_t n) { return (size_t)draw(n - 1); }
    template <class T> const T &oneof(const std::vector<T> &v) { return v[pick(v.size())]; }
    template <class T, size_t N> const T &oneof(const T (&a)[N]) { return a[pick(N)]; }
    // size-scaled upper bound: at size 100 the full `hi`
    uint64_t sized(uint64_t lo, uint64_t hi) {
        uint64_t span = hi - lo; uint64_t s = (uint64_t)((__uint128_t)span * (unsigned)size / 100);
        return lo + draw(s);
    }
    // small-biased integer in [0,hi]: half the mass below ~hi^(1/2)
    uint64_t skewed(uint64_t hi) {
        uint64_t k = draw(3);
        if (k == 0) return draw(std::min<uint64_t>(hi, 8));
        if (k == 1) return draw(std::min<uint64_t>(hi, 300));
        if (k == 2) return draw(std::min<uint64_t>(hi, 70000));
        return draw(hi);
    }
    Bytes bytes(size_t n) { Bytes b(n); for (auto &x : b) x = (uint8_t)draw(255); return b; }
    uint64_t u64() { return draw(UINT64_MAX); }

    // make the description so far visible to the parent even if this process dies right after
    void checkpoint() { if (!shm) return; std::string d = desc.str(); size_t n = std::min(d.size(), sizeof(shm->desc) - 1); memcpy((char *)shm->desc, d.data(), n); ((char *)shm->desc)[n] = 0; }
    void label(const std::string &l) { labels.push_back(l); }
    void nontrivial() { nontriv = true; }
    void nontrivial(uint64_t key) { nontriv = true; nontriv_key = key; nontriv_key_set = true; }
    [[noreturn]] void fail(const std::string &sig, const std::string &msg) { throw Fail{sig, msg}; }
    [[noreturn]] void discard() { throw Discard{}; }
    void require(bool cond, const std::string &sig, const std::string &msg) { if (!cond) fail(sig, msg); }
    bool is_known(const std::string &sig) const { return known && known->count(sig); }
    uint64_t case_key() const { return fnv1a(rec.data(), rec.size() * 8); }
};

typedef void (*Prop)(Ctx &);

static inline std::string hexs(const uint8_t *p, size_t n, size_t max = 64) {
    static const char *d = "0123456789abcdef"; std::string s;
    for (size_t i = 0; i < n && i < max; i++) { s += d[p[i] >> 4]; s += d[p[i] & 15]; }
    if (n > max) s += "...(" + std::to_string(n) + " bytes)";
    return s;
}
static inline std::string hexs(const Bytes &b, size_t max = 64) { return hexs(b.data(), b.size(), max); }

static inline std::string json_escape(const std::string &s) {
    std::string o;
    for (unsigned char ch : s) {
        if (ch == '"') o += "\\\""; else if (ch == '\\') o += "\\\\"; else if (ch == '\n') o += "\\n";
        else if (ch == '\t') o += "\\t"; else if (ch < 0x20 || ch >= 0x7f) { char b[8]; snprintf(b, 8, "\\u%04x", ch); o += b; }
        else o += (char)ch;
    }
    return o;
}

struct Outcome {
    enum Kind { PASS, FAIL, DISCARD, CRASH, HANG } kind = PASS;
    std::string sig, msg;
    std::vector<uint64_t> rec;
    std::vector<std::string> labels; bool nontriv = false; uint64_t key = 0; std::string desc;
    uint64_t extra_evals = 0, extra_distinct = 0;
};

static inline std::string ser_outcome(const Outcome &o) {
    std::ostringstream os;
    os << (int)o.kind << '\x1f' << o.key << '\x1f' << (o.nontriv ? 1 : 0) << '\x1f' << o.extra_evals << ':' << o.extra_distinct << '\x1f';
    for (auto &l : o.labels) os << l << '\x1e';
    os << '\x1f' << o.desc << '\x1f' << o.sig << '\x1f' << o.msg << '\x1d';
    return os.str();
}
static inline bool parse_outcome(const std::string &recd, Outcome &o) {
    std::vector<std::string> f; size_t s = 0, e;
    while ((e = recd.find('\x1f', s)) != std::string::npos) { f.push_back(recd.substr(s, e - s)); s = e + 1; }
    f.push_back(recd.substr(s));
    if (f.size() < 8) return false;
    o.kind = (Outcome::Kind)atoi(f[0].c_str()); o.key = strtoull(f[1].c_str(), 0, 10);
    o.nontriv = f[2] == "1"; o.extra_evals = strtoull(f[3].c_str(), 0, 10);
    { size_t cpos = f[3].find(':'); if (cpos != std::string::npos) o.extra_distinct = strtoull(f[3].c_str() + cpos + 1, 0, 10); }
    { size_t a = 0, b; while ((b = f[4].find('\x1e', a)) != std::string::npos) { o.labels.push_back(f[4].substr(a, b - a)); a = b + 1; } }
    o.desc = f[5]; o.sig = f[6]; o.msg = f[7];
    return true;
}

struct Options {
    std::string id = "C00";
    uint64_t seed = 1; uint64_t cases = 100; int size_max = 100; int tier = 0;
    std::string counters, replay, replay_bytes, replaydir = "replay", known_file;
    int cpu_limit = 60;             // CPU seconds per case before it is called a hang
    int shrink_budget = 400;        // property executions spent on shrinking one failure
    bool no_fork = false; bool do_enum = false;
    int proc_index = 0, nproc = 1;
    uint64_t max_choices = Shm::CAP - 16;
};

struct Stats {
    uint64_t evaluations = 0, discards = 0, known_hits = 0, extra_evals = 0;
    std::map<std::string, uint64_t> labels;
    std::unordered_set<uint64_t> distinct;
    uint64_t distinct_by_construction = 0;   // from exhaustive enumerations
    std::vector<std::string> samples;
    struct F { std::string sig, msg, replay; bool known; };
    std::vector<F> failures;
    bool exhaustive = false; std::string exhaustive_note;
};

struct Runner;
typedef void (*EnumFn)(Runner &);

struct Runner {
    Options opt; Prop prop; EnumFn enumfn = nullptr; Stats st; std::set<std::string> known;
    Shm *shm = nullptr;
    std::string errfile;

    // ---- single in-process execution ----
    Outcome exec(Ctx &c) {
        Outcome o;
        c.known = &known; c.tier = opt.tier; c.max_choices = opt.max_choices;
        try { prop(c); o.kind = Outcome::PASS; }
        catch (Fail &f) { o.kind = Outcome::FAIL; o.sig = f.sig; o.msg = f.msg; }
        catch (Discard &) { o.kind = Outcome::DISCARD; }
        o.rec = c.rec; o.labels = c.labels; o.nontriv = c.nontriv; o.desc = c.desc.str();
        o.key = c.nontriv_key_set ? c.nontriv_key : c.case_key(); o.extra_evals = c.extra_evals; o.extra_distinct = c.extra_distinct;
        return o;
    }
    Outcome exec_seq(const std::vector<uint64_t> &seq, int size, Shm *sh = nullptr) {
        Ctx c; c.mode = Ctx::REPLAY; c.rep = &seq; c.size = size; c.shm = sh; return exec(c);
    }
    Outcome exec_random(uint64_t idx, Shm *sh) {
        Ctx c; c.mode = Ctx::RANDOM; c.rng = Rng(mix64(opt.seed * 0x100000001b3ULL + idx)); c.shm = sh;
        c.size = size_for(idx); return exec(c);
    }
    int size_for(uint64_t idx) const {
        // ramp sizes 5..size_max over the first third of the run, then cycle
        uint64_t ramp = std::max<uint64_t>(1, opt.cases / 3);
        uint64_t k = idx < ramp ? idx : (idx * 7919) % ramp;
        return 5 + (int)((opt.size_max - 5) * k / ramp);
    }

    static void on_prof(int) { _exit(99); }
    void arm_cpu_timer() {
        struct itimerval it; memset(&it, 0, sizeof it); it.it_value.tv_sec = opt.cpu_limit;
        signal(SIGPROF, on_prof); setitimer(ITIMER_PROF, &it, nullptr);
    }
    static void disarm_cpu_timer() { struct itimerval it; memset(&it, 0, sizeof it); setitimer(ITIMER_PROF, &it, nullptr); }

    // ---- parent-side watchdog.  The child's own CPU timer is a signal, and a sanitizer runtime that is stuck inside itself (a
    // race report and a crash report waiting for each other, a spin on its report lock) never delivers it.  The parent therefore
    // reads the child's CPU time from /proc while it waits for output: more than the limit (+25 % + 5 s) without finishing the
    // current case = hang; no CPU at all and every poll finding it asleep for 180 s of wall time = stall (deadlock).  Either way
    // the child is killed and the case is classified from what it left in its error file.
    enum { WD_NONE = 0, WD_CPU = 1, WD_STALL = 2 }; int wd_killed = WD_NONE;
    static bool proc_stat(pid_t pid, double &cpu, char &state) {
        char p[64]; snprintf(p, sizeof p, "/proc/%d/stat", (int)pid); FILE *f = fopen(p, "r"); if (!f) return false;
        char buf[2048]; size_t n = fread(buf, 1, sizeof buf - 1, f); fclose(f); buf[n] = 0; char *q = strrchr(buf, ')'); if (!q) return false;
        unsigned long ut = 0, stt = 0; char stc = '?';
        if (sscanf(q + 2, "%c %*d %*d %*d %*d %*d %*u %*u %*u %*u %*u %lu %lu", &stc, &ut, &stt) != 3) return false;
        cpu = (double)(ut + stt) / (double)sysconf(_SC_CLK_TCK); state = stc; return true;
    }
    // read everything the child writes to fd, calling on_data after each piece; per_case: the limit applies to the CPU used since
    // shm->case_index last changed (a worker that runs many cases), otherwise to the child's whole life
    template <class F> void watch_read(pid_t pid, int fd, bool per_case, F on_data) {
        wd_killed = WD_NONE; char tmp[65536]; double cpu0 = 0, idle_cpu = -1; uint64_t last_case = shm->case_index; time_t idle_since = time(nullptr); bool asleep_all = true;
        double limit = opt.cpu_limit * 1.25 + 5;
        for (;;) {
            struct pollfd pf = {fd, POLLIN, 0}; int pr = poll(&pf, 1, 1000);
            if (pr > 0) { ssize_t r = read(fd, tmp, sizeof tmp); if (r <= 0) break; on_data(tmp, (size_t)r); idle_since = time(nullptr); idle_cpu = -1; asleep_all = true; continue; }
            if (pr < 0 && errno != EINTR) break;
            double cpu; char stc; if (!proc_stat(pid, cpu, stc)) continue;
            if (per_case && shm->case_index != last_case) { last_case = shm->case_index; cpu0 = cpu; idle_since = time(nullptr); idle_cpu = -1; asleep_all = true; }
            if (cpu - cpu0 > limit) { wd_killed = WD_CPU; kill(pid, SIGKILL); continue; }
            if (idle_cpu < 0) idle_cpu = cpu;
            if (stc != 'S') asleep_all = false;
            if (cpu - idle_cpu > 0.5) { idle_cpu = cpu; idle_since = time(nullptr); asleep_all = true; }
            else if (asleep_all && time(nullptr) - idle_since > 180 && shm->phase == 1) { wd_killed = WD_STALL; kill(pid, SIGKILL); }
        }
    }

    // ---- isolated execution of a sequence in a child: detects crashes and hangs ----
    // result is passed back through a pipe (kind, sig, msg) and the shared rec buffer
    Outcome isolated(const std::vector<uint64_t> &seq, int size) {
        if (opt.no_fork) return exec_seq(seq, size);
        return in_child([&]() { return exec_seq(seq, size, shm); });
    }
    template <class F> Outcome in_child(F run) {
        int pfd[2]; if (pipe(pfd)) { perror("pipe"); exit(2); }
        shm->nrec = 0; shm->phase = 1; shm->desc[0] = 0;
        fflush(stdout); fflush(stderr);
        pid_t pid = fork();
        if (pid == 0) {
            prctl(PR_SET_PDEATHSIG, SIGKILL); close(pfd[0]); redirect_stderr();
            arm_cpu_timer();
            Outcome o = run();
            disarm_cpu_timer();
            std::string s = ser_outcome(o);
            size_t off = 0; while (off < s.size()) { ssize_t w = write(pfd[1], s.data() + off, s.size() - off); if (w <= 0) break; off += w; }
            _exit(0);
        }
        close(pfd[1]);
        std::string buf;
        watch_read(pid, pfd[0], false, [&](const char *d, size_t n) { buf.append(d, n); });
        close(pfd[0]);
        int status = 0; waitpid(pid, &status, 0);
        Outcome o;
        size_t p = buf.find('\x1d');
        if (WIFEXITED(status) && WEXITSTATUS(status) == 0 && p != std::string::npos && parse_outcome(buf.substr(0, p), o)) {
            o.rec.assign(shm->rec, shm->rec + shm->nrec);
        } else { o.rec.assign(shm->rec, shm->rec + shm->nrec); classify_death(status, o); o.desc = std::string((const char *)shm->desc) + " [process died here]"; }
        return o;
    }
    void redirect_stderr() {
        if (errfile.empty()) return;
        int fd = open(errfile.c_str(), O_WRONLY | O_CREAT | O_TRUNC, 0644);
        if (fd >= 0) { dup2(fd, 2); close(fd); }
    }
    std::string read_errfile() {
        std::string s; FILE *f = fopen(errfile.c_str(), "r"); if (!f) return s;
        char tmp[4096]; size_t r; while ((r = fread(tmp, 1, sizeof tmp, f)) > 0) { s.append(tmp, r); if (s.size() > 1 << 16) break; }
        fclose(f); return s;
    }
    void classify_death(int status, Outcome &o) {
        std::string err = read_errfile();
        if (wd_killed != WD_NONE && err.find("SUMMARY: ") == std::string::npos && err.find("runtime error: ") == std::string::npos) {
            // killed by the watchdog.  A sanitizer report that had begun (and then blocked inside the runtime) is the finding; otherwise a hang / stall.
            int w = wd_killed; wd_killed = WD_NONE; size_t q;
            if ((q = err.find("WARNING: ThreadSanitizer: ")) != std::string::npos || (q = err.find("ERROR: AddressSanitizer: ")) != std::string::npos || (q = err.find("Sanitizer:DEADLYSIGNAL")) != std::string::npos || (q = err.find("ERROR: ThreadSanitizer: ")) != std::string::npos) {
                std::string line = err.substr(q, err.find('\n', q) - q); o.kind = Outcome::CRASH; std::istringstream is(line); std::string a, b2, c3, d4; is >> a >> b2 >> c3 >> d4;
                o.sig = "san:" + (c3.empty() ? std::string("report") : c3) + ":runtime-blocked"; o.msg = line + " (the sanitizer runtime then blocked; process killed by the watchdog) | stderr tail: " + err.substr(err.size() > 1500 ? err.size() - 1500 : 0); return; }
            o.kind = Outcome::HANG; o.sig = w == WD_STALL ? "stall" : "hang";
            o.msg = w == WD_STALL ? "no progress and no CPU use for 180 s: every thread asleep (deadlock)" : "CPU-time limit of " + std::to_string(opt.cpu_limit) + " s exceeded (signal never delivered; killed by the watchdog)"; return;
        }
        wd_killed = WD_NONE;
        if (WIFEXITED(status) && WEXITSTATUS(status) == 99) { o.kind = Outcome::HANG; o.sig = "hang"; o.msg = "CPU-time limit of " + std::to_string(opt.cpu_limit) + " s exceeded"; return; }
        o.kind = Outcome::CRASH;
        // derive a root-cause signature from the sanitizer summary if there is one
        std::string sig = "crash";
        size_t p = err.find("SUMMARY: ");
        if (p != std::string::npos) {
            std::string line = err.substr(p + 9, err.find('\n', p) - p - 9);
            // "AddressSanitizer: heap-buffer-overflow /path/file.c:123:9 in func"
            std::istringstream is(line); std::string tool, kind, loc, in, fn; is >> tool >> kind >> loc >> in >> fn;
            // prefer the innermost stack frame that lies in the code under test (.../src/...c)
            std::string frame_fn; { std::istringstream es(err); std::string l;
                while (std::getline(es, l)) { size_t h = l.find("    #"); if (h == std::string::npos) continue; size_t in = l.find(" in ", h);
                    std::string rest;
                    if (in != std::string::npos) rest = l.substr(in + 4);                                   // ASan/UBSan: "#0 0xaddr in func path:line"
                    else { size_t sp0 = l.find(' ', h + 5); if (sp0 == std::string::npos) continue; rest = l.substr(sp0 + 1); }   // TSan: "#0 func path:line (mod+off)"
                    size_t sp = rest.find(' '); if (sp == std::string::npos) continue; std::string path = rest.substr(sp + 1);
                    if (path.find("/src/") != std::string::npos && path.find("/verif/") == std::string::npos) { frame_fn = rest.substr(0, sp); break; } } }
            if (!frame_fn.empty()) fn = frame_fn;
            sig = "san:" + kind + ":" + (fn.empty() ? loc : fn);
            o.msg = line;
        } else if ((p = err.find("runtime error: ")) != std::string::npos) {
            size_t ls = err.rfind('\n', p); ls = ls == std::string::npos ? 0 : ls + 1;
            std::string line = err.substr(ls, err.find('\n', p) - ls);
            sig = "ubsan:" + line.substr(0, line.find(' '));
            o.msg = line;
        } else if (WIFSIGNALED(status)) { sig = "signal:" + std::to_string(WTERMSIG(status)); o.msg = "killed by signal " + std::to_string(WTERMSIG(status)); }
        else { o.msg = "abnormal exit status " + std::to_string(WEXITSTATUS(status)); sig = "exit:" + std::to_string(WEXITSTATUS(status)); }
        if (o.msg.empty()) o.msg = sig;
        o.sig = sig;
        size_t tail = err.size() > 1500 ? err.size() - 1500 : 0;
        o.msg += " | stderr tail: " + err.substr(tail);
    }

    // ---- shrinking ----
    static bool same_failure(const Outcome &a, const Outcome &b) {
        if (b.kind != Outcome::FAIL && b.kind != Outcome::CRASH && b.kind != Outcome::HANG) return false;
        return a.sig == b.sig;
    }
    Outcome shrink(Outcome cur, int size, bool iso) {
        int budget = opt.shrink_budget;
        if (cur.kind == Outcome::HANG || cur.sig.find("hang") != std::string::npos) budget = std::min(budget, 6);  // each attempt may burn the whole CPU limit
        time_t t0 = time(nullptr);      // shrinking only decides how small the replay file is, never the verdict: stop after 3 minutes
        auto attempt = [&](const std::vector<uint64_t> &cand) -> bool {
            if (budget > 0 && time(nullptr) - t0 > 180) budget = 0;
            if (budget <= 0) return false;
            budget--;
            Outcome o = iso ? isolated(cand, size) : exec_seq(cand, size);
            if (same_failure(cur, o) && (o.rec.size() < cur.rec.size() || (o.rec.size() == cur.rec.size() && o.rec < cur.rec))) {
                cur = o; return true;
            }
            return false;
        };
        bool improved = true;
        while (improved && budget > 0) {
            improved = false;
            // truncate tail
            for (size_t keep = 0; keep < cur.rec.size() && budget > 0; keep = keep * 2 + 1) {
                std::vector<uint64_t> cand(cur.rec.begin(), cur.rec.begin() + keep);
                if (attempt(cand)) { improved = true; break; }
            }
            // delete blocks
            for (size_t k : {16, 8, 4, 2, 1}) {
                for (size_t i = 0; i + k <= cur.rec.size() && budget > 0;) {
                    std::vector<uint64_t> cand(cur.rec); cand.erase(cand.begin() + i, cand.begin() + i + k);
                    if (attempt(cand)) improved = true; else i += k;
                }
            }
            // zero blocks
            for (size_t k : {8, 2}) {
                for (size_t i = 0; i + k <= cur.rec.size() && budget > 0; i += k) {
                    bool allz = true; for (size_t j = i; j < i + k; j++) if (cur.rec[j]) allz = false;
                    if (allz) continue;
                    std::vector<uint64_t> cand(cur.rec); for (size_t j = i; j < i + k; j++) cand[j] = 0;
                    if (attempt(cand)) improved = true;
                }
            }
            // lower individual values (binary search towards 0)
            for (size_t i = 0; i < cur.rec.size() && budget > 0; i++) {
                if (cur.rec[i] == 0) continue;
                { std::vector<uint64_t> cand(cur.rec); cand[i] = 0; if (attempt(cand)) { improved = true; continue; } }
                uint64_t lo = 0, hi = cur.rec[i];      // invariant: hi fails, lo (probably) passes
                while (lo + 1 < hi && budget > 0 && i < cur.rec.size()) {
                    uint64_t mid = lo + (hi - lo) / 2;
                    std::vector<uint64_t> cand(cur.rec); cand[i] = mid;
                    if (attempt(cand)) { improved = true; hi = i < cur.rec.size() ? cur.rec[i] : 0; } else lo = mid;
                }
            }
        }
        return cur;
    }

    // ---- replay files ----
    std::string write_replay(const Outcome &o, int size, const std::string &how, const std::vector<std::pair<std::vector<uint64_t>, int>> *history = nullptr) {
        std::string dir = opt.replaydir + "/" + opt.id;
        std::string cmd = "mkdir -p '" + dir + "'"; int rc = system(cmd.c_str()); (void)rc;
        char name[64]; snprintf(name, sizeof name, "%016llx.case", (unsigned long long)fnv1a(o.rec.data(), o.rec.size() * 8));
        std::string path = dir + "/" + name;
        FILE *f = fopen(path.c_str(), "w"); if (!f) return path;
        fprintf(f, "property %s\ngenver %d\nsize %d\nsig %s\nfound %s\n", opt.id.c_str(), g_gver, size, o.sig.c_str(), how.c_str());
        std::string m = o.msg; for (auto &ch : m) if (ch == '\n') ch = ' ';
        if (m.size() > 3000) m.resize(3000);
        fprintf(f, "msg %s\n", m.c_str());
        std::string d = o.desc; for (auto &ch : d) if (ch == '\n') ch = ' ';
        if (d.size() > 3000) d.resize(3000);
        fprintf(f, "desc %s\n", d.c_str());
        // cases that have to run before the failing one in the same process (all but the last entry of `history`)
        if (history) for (size_t k = 0; k + 1 < history->size(); k++) { fprintf(f, "before %d", (*history)[k].second); for (uint64_t v : (*history)[k].first) fprintf(f, " %llu", (unsigned long long)v); fprintf(f, "\n"); }
        fprintf(f, "choices");
        for (uint64_t v : o.rec) fprintf(f, " %llu", (unsigned long long)v);
        fprintf(f, "\n");
        fclose(f);
        return path;
    }
    static bool read_replay(const std::string &path, std::vector<uint64_t> &seq, int &size, std::string &sig, std::vector<std::pair<std::vector<uint64_t>, int>> *before = nullptr) {
        FILE *f = fopen(path.c_str(), "r"); if (!f) return false;
        std::string all; char tmp[65536]; size_t r; while ((r = fread(tmp, 1, sizeof tmp, f)) > 0) all.append(tmp, r);
        fclose(f);
        std::istringstream is(all); std::string line; bool got = false; size = 50; int ver = 1;
        while (std::getline(is, line)) {
            if (line.compare(0, 5, "size ") == 0) size = atoi(line.c_str() + 5);
            else if (line.compare(0, 7, "genver ") == 0) ver = atoi(line.c_str() + 7);
            else if (line.compare(0, 4, "sig ") == 0) sig = line.substr(4);
            else if (line.compare(0, 7, "before ") == 0) { std::istringstream ls(line.substr(7)); int sz = 50; ls >> sz; std::vector<uint64_t> b; unsigned long long v; while (ls >> v) b.push_back(v); if (before) before->push_back({b, sz}); }
            else if (line.compare(0, 7, "choices") == 0) {
                std::istringstream ls(line.substr(7)); unsigned long long v; while (ls >> v) seq.push_back(v); got = true;
            }
        }
        g_gver = ver;        // one replay file per process: everything decoded from here on uses the file's generator version
        return got;
    }

    // ---- accounting ----
    void account(const Outcome &o) {
        st.evaluations++; st.extra_evals += o.extra_evals;
        if (o.kind == Outcome::DISCARD) { st.discards++; return; }
        for (auto &l : o.labels) st.labels[l]++;
        if (o.nontriv && st.distinct.insert(o.key).second) st.distinct_by_construction += o.extra_distinct;
        if (!o.desc.empty()) {
            uint64_t n = st.evaluations;
            bool take = st.samples.size() < 3 || (o.nontriv && st.samples.size() < 6) || (n & (n - 1)) == 0;
            if (take && st.samples.size() < 12) st.samples.push_back(o.desc.size() > 1200 ? o.desc.substr(0, 1200) + "..." : o.desc);
        }
    }
    // returns true when the run must stop (unlisted violation)
    bool handle_failure(Outcome o, int size, const std::string &how) {
        bool iso = !opt.no_fork;
        if (o.kind != Outcome::FAIL) {
            // crash / hang: believe it only if it reproduces in isolation (3 replays)
            int rep = 0; Outcome last;
            for (int i = 0; i < 3; i++) { last = isolated(o.rec, size); if (last.kind == o.kind || last.kind == Outcome::CRASH || last.kind == Outcome::HANG) rep++; }
            if (rep < 2) { st.labels["unreproducible-" + o.sig]++; fprintf(stderr, "[pbt] %s: %s did not reproduce (%d/3), ignored\n", opt.id.c_str(), o.sig.c_str(), rep); return false; }
            if (last.desc.empty()) last.desc = o.desc; o = last;
        } else if (iso) {
            Outcome again = isolated(o.rec, size);
            if (again.kind == Outcome::PASS) {
                st.labels["flaky-" + o.sig]++; fprintf(stderr, "[pbt] %s: failure %s did not reproduce in isolation, ignored\n", opt.id.c_str(), o.sig.c_str()); return false;
            }
        }
        Outcome small = shrink(o, size, iso);
        if (small.desc.empty()) small.desc = o.desc;
        bool is_known = known.count(small.sig) > 0;
        std::string path = write_replay(small, size, how);
        st.failures.push_back({small.sig, small.msg, path, is_known});
        if (is_known) { st.known_hits++; return false; }
        return true;
    }

    // ---- main loops ----
    void run_random() {
        uint64_t i = 0;
        while (i < opt.cases) {
            if (opt.no_fork) {
                for (; i < opt.cases; i++) {
                    Outcome o = exec_random(i, nullptr); account(o);
                    if (o.kind == Outcome::FAIL && handle_failure(o, size_for(i), "random seed=" + std::to_string(opt.seed) + " case=" + std::to_string(i))) return;
                }
                return;
            }
            // forked worker runs cases i.. and reports each outcome through a pipe
            int pfd[2]; if (pipe(pfd)) { perror("pipe"); exit(2); }
            shm->phase = 0; shm->nrec = 0; shm->case_index = i;
            fflush(stdout); fflush(stderr);
            pid_t pid = fork();
            if (pid == 0) {
                prctl(PR_SET_PDEATHSIG, SIGKILL); close(pfd[0]); redirect_stderr();
                FILE *out = fdopen(pfd[1], "w");
                for (uint64_t j = i; j < opt.cases; j++) {
                    shm->case_index = j; shm->nrec = 0; shm->phase = 1; shm->desc[0] = 0;
                    arm_cpu_timer();
                    Outcome o = exec_random(j, shm);
                    disarm_cpu_timer();
                    shm->phase = 0;
                    std::string s = ser_outcome(o); fwrite(s.data(), 1, s.size(), out);
                    if (o.kind == Outcome::FAIL) { fflush(out); _exit(0); }  // parent handles it, then restarts after j
                    if ((j & 63) == 0) fflush(out);
                }
                fflush(out); _exit(0);
            }
            close(pfd[1]);
            std::string buf; bool stop = false;
            uint64_t done = 0; Outcome pending; bool have_pending = false;
            auto parse = [&](bool final) {
                size_t p;
                while ((p = buf.find('\x1d')) != std::string::npos) {
                    std::string recd = buf.substr(0, p); buf.erase(0, p + 1);
                    Outcome o; if (!parse_outcome(recd, o)) continue;
                    account(o); done++;
                    if (o.kind == Outcome::FAIL) { pending = o; have_pending = true; }
                }
                (void)final;
            };
            watch_read(pid, pfd[0], true, [&](const char *d, size_t n) { buf.append(d, n); parse(false); });
            close(pfd[0]); parse(true);
            int status = 0; waitpid(pid, &status, 0);
            uint64_t at = i + done;   // index of the case after the last reported one
            if (have_pending) {
                // the failing case is the last reported one; regenerate its sequence deterministically
                uint64_t fi = at - 1;
                // re-run in isolation to obtain the recorded sequence without trusting in-process state
                Outcome o = regen_isolated(fi);
                if (o.rec.empty()) o = pending;
                o.desc = pending.desc;
                if (o.kind == Outcome::PASS) {
                    // Fails inside the worker but not alone: the cases run earlier in the same process are part of
                    // the failing input (state leaking between contexts in the code under test).
                    stop = handle_history_failure(pending, i, fi);
                } else
                    stop = handle_failure(o, size_for(fi), "random seed=" + std::to_string(opt.seed) + " case=" + std::to_string(fi));
                i = at;
            } else if (!(WIFEXITED(status) && WEXITSTATUS(status) == 0) || at < opt.cases) {
                // worker died inside case `at`
                Outcome o; o.rec.assign(shm->rec, shm->rec + shm->nrec);
                classify_death(status, o); o.desc = std::string((const char *)shm->desc) + " [process died here]";
                st.evaluations++;
                stop = handle_failure(o, size_for(at), "random seed=" + std::to_string(opt.seed) + " case=" + std::to_string(at));
                i = at + 1;
            } else i = at;
            if (stop) return;
        }
    }
    // Run the random cases `idxs` one after another in ONE fresh child; outcome of the last one.
    Outcome history_child(const std::vector<uint64_t> &idxs) {
        return in_child([&]() { Outcome o; for (uint64_t k : idxs) o = exec_random(k, shm); return o; });
    }
    Outcome history_child_seqs(const std::vector<std::pair<std::vector<uint64_t>, int>> &seqs) {
        return in_child([&]() { Outcome o; for (auto &sq : seqs) o = exec_seq(sq.first, sq.second, shm); return o; });
    }
    // A failure that needs earlier cases of the same worker process.  first = first case the worker ran.
    bool handle_history_failure(const Outcome &pending, uint64_t first, uint64_t fi) {
        auto fails = [&](const std::vector<uint64_t> &h) { Outcome o = history_child(h); return (o.kind == Outcome::FAIL || o.kind == Outcome::CRASH) && o.sig == pending.sig; };
        std::vector<uint64_t> hist;
        // shortest suffix of the worker's history that still fails
        bool found = false;
        for (uint64_t len : {1, 2, 3, 5, 8, 16, 32, 64, 128, 100000000}) {
            uint64_t from = fi - first > len ? fi - len : first; hist.clear(); for (uint64_t k = from; k <= fi; k++) hist.push_back(k);
            if (fails(hist)) { found = true; break; }
            if (from == first) break;
        }
        if (!found) { st.labels["flaky-" + pending.sig]++; fprintf(stderr, "[pbt] %s: failure %s reproduces neither alone nor with its history, ignored\n", opt.id.c_str(), pending.sig.c_str()); return false; }
        // drop earlier cases one by one (bounded)
        int budget = 40;
        for (size_t k = 0; k + 1 < hist.size() && budget > 0;) { std::vector<uint64_t> c2(hist); c2.erase(c2.begin() + k); budget--; if (fails(c2)) hist = c2; else k++; }
        // materialise the choice sequences
        std::vector<std::pair<std::vector<uint64_t>, int>> seqs;
        for (uint64_t k : hist) { Outcome r = regen_isolated(k); seqs.push_back({r.rec, size_for(k)}); }
        Outcome chk = history_child_seqs(seqs);
        // the replay file must be able to show the failure again: a history that fails once but not when replayed from its
        // materialised sequences (timing-based signatures under load, mostly) is counted, not reported
        if (chk.kind == Outcome::PASS || chk.kind == Outcome::DISCARD) { st.labels["flaky-" + pending.sig]++; fprintf(stderr, "[pbt] %s: history-dependent failure %s does not reproduce from its recorded sequences, ignored\n", opt.id.c_str(), pending.sig.c_str()); return false; }
        Outcome rep; rep.kind = Outcome::FAIL; rep.sig = pending.sig + ":history-dependent";
        rep.msg = pending.msg + " [passes on its own; fails after " + std::to_string(hist.size() - 1) + " earlier case(s) in the same process: state leaks between contexts" + (chk.kind == Outcome::PASS ? "; sequence replay did not reproduce" : "") + "]";
        rep.desc = pending.desc; rep.rec = seqs.back().first;
        bool is_known = known.count(rep.sig) > 0 || known.count(pending.sig) > 0;
        std::string path = write_replay(rep, seqs.back().second, "random seed=" + std::to_string(opt.seed) + " cases " + std::to_string(hist.front()) + ".." + std::to_string(fi), &seqs);
        st.failures.push_back({rep.sig, rep.msg, path, is_known});
        if (is_known) { st.known_hits++; return false; }
        return true;
    }
    // run random case idx in an isolated child only to capture its choice sequence / outcome
    Outcome regen_isolated(uint64_t idx) {
        return in_child([&]() { return exec_random(idx, shm); });
    }

    // Run one explicit sequence (used by exhaustive enumerations and corpus replays).
    // Returns true when the run must stop.
    bool run_seq(const std::vector<uint64_t> &seq, int size, const std::string &how) {
        Outcome o = opt.no_fork ? exec_seq(seq, size) : isolated(seq, size);
        account(o);
        if (o.kind == Outcome::PASS || o.kind == Outcome::DISCARD) return false;
        return handle_failure(o, size, how);
    }
    // Report a failure found by an enumeration loop that bypasses Ctx (fast path):
    // `seq` is the equivalent choice sequence for the generic property.
    bool report_enum_failure(const std::vector<uint64_t> &seq, const std::string &sig, const std::string &msg, const std::string &desc) {
        Outcome o; o.kind = Outcome::FAIL; o.sig = sig; o.msg = msg; o.rec = seq; o.desc = desc;
        bool is_known = known.count(sig) > 0;
        std::string path = write_replay(o, 50, "enumeration");
        st.failures.push_back({sig, msg, path, is_known});
        if (is_known) { st.known_hits++; return false; }
        return true;
    }

    int do_replay(const std::string &path) {
        std::vector<uint64_t> seq; int size = 50; std::string sig; std::vector<std::pair<std::vector<uint64_t>, int>> before;
        if (!read_replay(path, seq, size, sig, &before)) { fprintf(stderr, "cannot read replay file %s\n", path.c_str()); return 2; }
        Outcome o;
        if (!before.empty()) { before.push_back({seq, size}); if (opt.no_fork) { for (auto &sq : before) o = exec_seq(sq.first, sq.second); } else o = history_child_seqs(before); if (o.kind == Outcome::FAIL && sig.find(":history-dependent") != std::string::npos && o.sig.find(":history-dependent") == std::string::npos) o.sig += ":history-dependent"; }
        else o = opt.no_fork ? exec_seq(seq, size) : isolated(seq, size);
        account(o);
        if (o.kind == Outcome::PASS || o.kind == Outcome::DISCARD) { printf("REPLAY-PASS property=%s file=%s\n", opt.id.c_str(), path.c_str()); return 0; }
        bool is_known = known.count(o.sig) > 0;
        st.failures.push_back({o.sig, o.msg, path, is_known});
        if (is_known) st.known_hits++;
        printf("REPLAY-FAIL property=%s file=%s sig=%s msg=%s\n", opt.id.c_str(), path.c_str(), o.sig.c_str(), o.msg.substr(0, 600).c_str());
        return is_known ? 0 : 1;
    }

    void write_counters() {
        if (opt.counters.empty()) return;
        FILE *f = fopen(opt.counters.c_str(), "w"); if (!f) return;
        fprintf(f, "{\"property\":\"%s\",\"seed\":%llu,\"evaluations\":%llu,\"inner_evaluations\":%llu,\"discards\":%llu,\"known_hits\":%llu,\"distinct_by_construction\":%llu,\"exhaustive\":%s,\"exhaustive_note\":\"%s\",\n",
                opt.id.c_str(), (unsigned long long)opt.seed, (unsigned long long)st.evaluations, (unsigned long long)st.extra_evals, (unsigned long long)st.discards,
                (unsigned long long)st.known_hits, (unsigned long long)st.distinct_by_construction, st.exhaustive ? "true" : "false", json_escape(st.exhaustive_note).c_str());
        fprintf(f, "\"labels\":{"); bool first = true;
        for (auto &kv : st.labels) { fprintf(f, "%s\"%s\":%llu", first ? "" : ",", json_escape(kv.first).c_str(), (unsigned long long)kv.second); first = false; }
        fprintf(f, "},\n\"samples\":["); first = true;
        for (auto &s : st.samples) { fprintf(f, "%s\"%s\"", first ? "" : ",", json_escape(s).c_str()); first = false; }
        fprintf(f, "],\n\"failures\":["); first = true;
        for (auto &x : st.failures) { fprintf(f, "%s{\"sig\":\"%s\",\"msg\":\"%s\",\"replay\":\"%s\",\"known\":%s}", first ? "" : ",", json_escape(x.sig).c_str(), json_escape(x.msg.substr(0, 1500)).c_str(), json_escape(x.replay).c_str(), x.known ? "true" : "false"); first = false; }
        fprintf(f, "],\n\"distinct\":["); first = true;
        for (uint64_t h : st.distinct) { fprintf(f, "%s%llu", first ? "" : ",", (unsigned long long)h); first = false; }
        fprintf(f, "]}\n");
        fclose(f);
    }

    void load_known() {
        if (opt.known_file.empty()) return;
        FILE *f = fopen(opt.known_file.c_str(), "r"); if (!f) return;
        char line[4096];
        while (fgets(line, sizeof line, f)) {
            std::string l(line);
            if (l.compare(0, 8, "finding:") != 0) continue;
            if (l.find("property=" + opt.id + " ") == std::string::npos) continue;
            size_t k = l.find("key="); if (k == std::string::npos) continue;
            size_t e = l.find_first_of(" \n", k); known.insert(l.substr(k + 4, e - k - 4));
        }
        fclose(f);
    }

    int main(int argc, char **argv) {
        for (int i = 1; i < argc; i++) {
            std::string a = argv[i]; auto val = [&]() -> std::string { return i + 1 < argc ? argv[++i] : ""; };
            if (a == "--seed") opt.seed = strtoull(val().c_str(), 0, 10);
            else if (a == "--cases") opt.cases = strtoull(val().c_str(), 0, 10);
            else if (a == "--size") opt.size_max = atoi(val().c_str());
            else if (a == "--tier") opt.tier = val() == "thorough" ? 1 : 0;
            else if (a == "--counters") opt.counters = val();
            else if (a == "--replay") opt.replay = val();
            else if (a == "--replaydir") opt.replaydir = val();
            else if (a == "--known") opt.known_file = val();
            else if (a == "--cpu-limit") opt.cpu_limit = atoi(val().c_str());
            else if (a == "--shrink-budget") opt.shrink_budget = atoi(val().c_str());
            else if (a == "--no-fork") opt.no_fork = true;
            else if (a == "--enum") opt.do_enum = true;
            else if (a == "--proc") opt.proc_index = atoi(val().c_str());
            else if (a == "--nproc") opt.nproc = std::max(1, atoi(val().c_str()));
            else { fprintf(stderr, "unknown argument %s\n", a.c_str()); return 2; }
        }
        load_known();
        shm = (Shm *)mmap(nullptr, sizeof(Shm), PROT_READ | PROT_WRITE, MAP_SHARED | MAP_ANONYMOUS, -1, 0);
        if (shm == MAP_FAILED) { perror("mmap"); return 2; }
        char ef[128]; snprintf(ef, sizeof ef, "/dev/shm/pbt-%s-%d.err", opt.id.c_str(), (int)getpid()); errfile = ef;
        int rc = 0;
        if (!opt.replay.empty()) rc = do_replay(opt.replay);
        else {
            if (opt.do_enum && enumfn) enumfn(*this);
            bool unlisted = false; for (auto &x : st.failures) if (!x.known) unlisted = true;
            if (!unlisted) run_random();
        }
        for (auto &x : st.failures) {
            if (x.known) printf("KNOWN-HIT property=%s sig=%s replay=%s\n", opt.id.c_str(), x.sig.c_str(), x.replay.c_str());
            else { printf("FAILURE property=%s sig=%s replay=%s msg=%s\n", opt.id.c_str(), x.sig.c_str(), x.replay.c_str(), x.msg.substr(0, 800).c_str()); rc = 1; }
        }
        write_counters();
        unlink(errfile.c_str());
        fflush(stdout);
        return rc;
    }
};

} // namespace pbt

#ifdef PBT_FUZZ
// libFuzzer entry: the same property, choices decoded from the fuzzer's bytes.
#define PBT_MAIN(ID, PROP, ENUMFN)                                                                     \
    extern "C" int LLVMFuzzerTestOneInput(const uint8_t *data, size_t size) {                           \
        static pbt::Runner *R = nullptr;                                                                \
        if (!R) { R = new pbt::Runner(); R->opt.id = ID; R->prop = PROP; R->opt.no_fork = true;         \
                  const char *k = getenv("PBT_KNOWN"); if (k) { R->opt.known_file = k; R->load_known(); } \
                  const char *d = getenv("PBT_REPLAYDIR"); if (d) R->opt.replaydir = d;                  \
                  const char *t = getenv("PBT_TIER"); if (t && !strcmp(t, "thorough")) R->opt.tier = 1; } \
        pbt::Ctx c; c.mode = pbt::Ctx::BYTES; c.fb = data; c.fn = size; c.size = 60;                    \
        pbt::Outcome o = R->exec(c);                                                                    \
        if (o.kind == pbt::Outcome::FAIL && !R->known.count(o.sig)) {                                   \
            std::string p = R->write_replay(o, 60, "libFuzzer");                                        \
            fprintf(stderr, "FUZZ-FAILURE property=%s sig=%s replay=%s msg=%s\n", ID, o.sig.c_str(), p.c_str(), o.msg.substr(0, 800).c_str()); \
            fflush(stderr); __builtin_trap();                                                           \
        }                                                                                               \
        return 0;                                                                                       \
    }
#else
#define PBT_MAIN(ID, PROP, ENUMFN)                                                                     \
    int main(int argc, char **argv) {                                                                   \
        pbt::Runner R; R.opt.id = ID; R.prop = PROP; R.enumfn = ENUMFN; return R.main(argc, argv);      \
    }
#endif
